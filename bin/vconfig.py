# Per-property run configuration for bin/vcheck.
# shards = parallel processes, checks = rapid cases per shard, timeout = seconds per shard (hard limit).

CHECKS = {
    "C05": dict(
        test="TestC05", level="exploration", exhaustive_part=True,
        exhaustive_part_text="full product of the boundary values for every component of (amount, from, to) and (to, amount); random triples are sampled",
        quick=dict(shards=4, checks=20000, timeout=300),
        thorough=dict(shards=16, checks=400000, timeout=1500),
        assumptions=["oracle is math/big arithmetic on cur*10^18+supp", "aliasing of from/to pointers is not exercised"],
    ),
}

CHECKS["C20"] = dict(
    test="TestC20", level="exploration", exhaustive_part=True,
    exhaustive_part_text="per sampled wallet: every truncation length 0..len, every byte position x {0x01,0x80,0xFF}, every single-bit wrong key, wrong-key catalogue",
    quick=dict(shards=4, checks=1500, timeout=300),
    thorough=dict(shards=16, checks=40000, timeout=1500),
    assumptions=["AES-GCM authentication is trusted to reject what it rejects; the check only observes outcomes", "wallet keys derived from drawn seeds via ed25519.NewKeyFromSeed"],
)

CHECKS["C08"] = dict(
    test="TestC08", level="exploration", exhaustive_part=True,
    exhaustive_part_text="every cancellation index k in 0..n+1 for every cancellable operation on chain and wide DAGs of the listed small sizes; early-exit kinds and stream x writer scenarios are fixed representatives plus random draws",
    quick=dict(shards=8, checks=40, timeout=600),
    thorough=dict(shards=12, checks=60, timeout=2400, env={"GOMEMLIMIT": "3GiB", "VERIF_MAX_WORLDS": 90}),
    assumptions=["goroutine-profile text format of the Go runtime (state names, frame names)", "one node per case; inter-node wedges are out of scope"],
)

_LEDGER_ASSUME = [
    "reference ledger = math/big sums over declared parent hashes in the harness archive; digests/signatures recomputed by harness/ref",
    "goroutine interleavings inside concurrent batches are sampled, not enumerated",
    "transactions carry fixed-epoch timestamps; vertex timestamps of node-created vertices come from time.Now()",
]
for _p, _q, _t in [("C01", 45, 140), ("C02", 45, 120), ("C03", 45, 140), ("C06", 45, 140), ("C09", 45, 140), ("C10", 45, 140)]:
    CHECKS[_p] = dict(
        test="Test" + _p, level="exploration",
        common=dict(shrinktime="5s", env={"GOMEMLIMIT": "3GiB"}),
        quick=dict(shards=12, checks=_q, timeout=900, env={"VERIF_TRUNC_EVERY": 15, "GOMEMLIMIT": "3GiB"}),
        # memory: a world retains ~15 MB per node after it is closed, so a process is kept to _t//2 worlds and the
        # tier gets its depth from more waves of 12 processes (16 processes of 140 worlds were killed by the OOM killer)
        thorough=dict(shards=12, checks=_t // 2, timeout=2400, env={"VERIF_TRUNC_EVERY": 6, "GOMEMLIMIT": "3GiB", "VERIF_MAX_WORLDS": 90}),
        assumptions=_LEDGER_ASSUME,
    )

CHECKS["C17"] = dict(
    test="TestC17", level="exploration",
    quick=dict(shards=4, checks=1500, timeout=600),
    thorough=dict(shards=16, checks=20000, timeout=2400),
    assumptions=["entries stay far below the cache's size and 5-minute age limits, so eviction/expiry cannot interfere (and are not tested)", "concurrent interleavings are sampled with varied GOMAXPROCS, not enumerated"],
)

CHECKS["C19"] = dict(
    test="TestC19", level="exploration", exhaustive_part=True,
    exhaustive_part_text="one-field-at-a-boundary over every listed length/content/integer/timestamp value for signed/unsigned and countersigned variants, all pairs integer x timestamp and length x length",
    quick=dict(shards=4, checks=1500, timeout=600),
    thorough=dict(shards=16, checks=30000, timeout=2400),
    assumptions=["timestamps are restricted to the int64-nanosecond range (time.Time outside it has no defined UnixNano, which every digest uses)", "a proto.Marshal error on invalid UTF-8 in a string field is an accepted outcome (counted), a silently altered value is not"],
)

CHECKS["C13"] = dict(
    test="TestC13", level="exploration", exhaustive_part=True,
    exhaustive_part_text="all delivery permutations of three fixed segment shapes (chain, diamond, two-depth parents) of 4 (quick) / 5 (thorough) vertices",
    common=dict(shrinktime="20s", env={"GOMEMLIMIT": "3GiB"}),
    quick=dict(shards=8, checks=50, timeout=900),
    thorough=dict(shards=12, checks=70, timeout=2400, env={"VERIF_MAX_WORLDS": 90}),
    assumptions=["retry steps go through the synchronous hook that pops the next parked vertex and calls the real admission path; the real 2 s ticker keeps running and may add a legal extra retry",
                 "schedules stay inside the promised bounds (<=24 retries per vertex, far fewer than 500 parked)"],
)

CHECKS["C07"] = dict(
    test="TestC07", level="exploration",
    common=dict(shrinktime="1s", env={"GOMEMLIMIT": "3GiB"}),
    quick=dict(shards=14, checks=5, timeout=1200),
    thorough=dict(shards=12, checks=40, timeout=3000),
    assumptions=_LEDGER_ASSUME + ["truncation is triggered through the hook calling the real truncate synchronously; truncation racing with proposals and balance reads is sampled by one race scenario per process"],
)

CHECKS["C04"] = dict(
    test="TestC04", level="exploration", exhaustive_part=True,
    exhaustive_part_text="every single-bit flip of every fixed-width field (hashes, signatures, weight, timestamps, amounts) of sample vertices, every single-character substitution and single-bit payload flip of an address; the operator x field x position catalogue",
    common=dict(env={"GOMEMLIMIT": "3GiB"}),
    quick=dict(shards=8, checks=800, timeout=900),
    thorough=dict(shards=16, checks=8000, timeout=3000),
    assumptions=["the base ledger is reused across cases as long as its snapshot digest is unchanged (that is the oracle); a world is rebuilt after any admitted mutant",
                 "a vertex completely re-sealed by another node is a new vertex, not a mutation (as the statement says)"],
)

CHECKS["C14"] = dict(
    test="TestC14", level="exploration",
    common=dict(shrinktime="5s", env={"GOMEMLIMIT": "3GiB"}),
    quick=dict(shards=12, checks=32, timeout=900),
    thorough=dict(shards=12, checks=80, timeout=2400, env={"VERIF_MAX_WORLDS": 90}),
    assumptions=_LEDGER_ASSUME + ["a well-formed/malformed verdict on a corrupted stream is recomputed by the harness from the statement's list; a parent-closed prefix of a stream is a smaller well-formed ledger"],
)

CHECKS["C16"] = dict(
    test="TestC16", level="exploration",
    common=dict(shrinktime="20s", env={"GOMEMLIMIT": "3GiB"}),
    quick=dict(shards=8, checks=70, timeout=900),
    thorough=dict(shards=16, checks=140, timeout=3000),
    assumptions=["three quarters of the worlds use a non-throttling flashback stub so sequences reach deeper; a throttling answer is always acceptable",
                 "challenge expiry is not advanced (wall clock); concurrent duplicates are sampled"],
)

CHECKS["C15"] = dict(
    test="TestC15", level="exploration", exhaustive_part=True,
    exhaustive_part_text="the product of per-field shape classes for every request type of the three services and for vertices handed to the sync / missing-parent clients",
    common=dict(shrinktime="10s", env={"GOMEMLIMIT": "3GiB"}),
    quick=dict(shards=12, checks=400, timeout=900),
    thorough=dict(shards=16, checks=6000, timeout=3000),
    assumptions=["handlers are called in-process on the real service objects (the gRPC layer always hands them a non-nil top-level message, so nil top-level requests are not generated)",
                 "a node that panicked is never reused (a lock may be left held)"],
)

_GOSSIP_ASSUME = [
    "the stubs ignore the request context and never lose a message: message loss is not part of the fault model",
    "quiescence after each delivery is read from the goroutine profile (no forward / pipe goroutine alive, origin loops back in select)",
    "the 20 s duplicate-suppression window is not advanced; each schedule uses a fresh item",
]
CHECKS["C11"] = dict(
    test="TestC11", level="exploration", exhaustive_part=True,
    exhaustive_part_text="every connected labelled graph on 2-4 nodes x every origin x {vertex, awaiting transaction}: depth-first enumeration of all delivery orders, complete unless the per-(graph,origin) cap was hit (then the evidence says exhaustive=false and counts the capped enumerations)",
    common=dict(shrinktime="20s", env={"GOMEMLIMIT": "3GiB"}),
    quick=dict(shards=14, checks=30, timeout=900, env={"VERIF_C11_CAP": 80}),
    thorough=dict(shards=16, checks=400, timeout=3400, env={"VERIF_C11_CAP": 500}),
    assumptions=_GOSSIP_ASSUME,
)
CHECKS["C12"] = dict(
    test="TestC12", level="exploration",
    common=dict(shrinktime="20s", env={"GOMEMLIMIT": "3GiB"}),
    quick=dict(shards=12, checks=60, timeout=900),
    thorough=dict(shards=16, checks=700, timeout=3400),
    assumptions=_GOSSIP_ASSUME + ["the adversary forwards the intact item (re-sealing is out of scope) and manipulates lists, drops, duplicates and reorders"],
)

CHECKS["C18"] = dict(
    test="TestC18", level="exploration", race=True,
    common=dict(shrinktime="0s", env={"GOMEMLIMIT": "4GiB"}),
    quick=dict(shards=8, checks=4, timeout=1200, env={"VERIF_C18_CASES": 4, "GOMEMLIMIT": "4GiB"}),
    thorough=dict(shards=16, checks=40, timeout=3400, env={"VERIF_C18_CASES": 40, "GOMEMLIMIT": "4GiB"}),
    assumptions=["the Go race detector sees only races that execute in the sampled interleavings", "reports are attributed by function names of the innermost repository frames of the two accesses; reports without a repository frame are ignored"],
)

# native coverage-guided fuzz campaigns on top of the thorough tier (same oracles; wall-clock bounded)
CHECKS["C05"]["thorough"]["fuzz"] = dict(target="FuzzC05", seconds=120)
CHECKS["C15"]["thorough"]["fuzz"] = dict(target="FuzzC15", seconds=240)
CHECKS["C19"]["thorough"]["fuzz"] = dict(target="FuzzC19", seconds=120)
CHECKS["C20"]["thorough"]["fuzz"] = dict(target="FuzzC20", seconds=120)

# depth of the thorough tier for the world-based checks comes from waves of processes (a process is capped at 150 worlds)
for _p, _r in [("C01", 6), ("C02", 6), ("C03", 6), ("C06", 6), ("C09", 6), ("C10", 6), ("C07", 3), ("C13", 6), ("C14", 3), ("C16", 4), ("C08", 6)]:
    CHECKS[_p]["thorough"]["rounds"] = _r
