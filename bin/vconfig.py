# Per-property run configuration for bin/vcheck.
# shards = parallel processes, checks = rapid cases per shard, timeout = seconds per shard (hard limit).

CHECKS = {
    "C05": dict(
        test="TestC05", level="exploration", exhaustive_part=True,
        exhaustive_part_text="full product of the boundary values for every component of (amount, from, to) and (to, amount); random triples are sampled",
        quick=dict(shards=4, checks=20000, timeout=300),
        thorough=dict(shards=16, checks=400000, timeout=1500),
        assumptions=["oracle is math/big arithmetic on cur*10^18+supp", "aliasing of from/to pointers is not exercised"],
    ),
}
