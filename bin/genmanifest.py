#!/usr/bin/env python3
"""Regenerates MANIFEST.json from bin/vconfig.py + bin/manifest_meta.py (kept valid at all times)."""
import json, os, sys
HERE = os.path.dirname(os.path.abspath(__file__))
sys.path.insert(0, HERE)
from vconfig import CHECKS
from manifest_meta import META, NOT_APPLICABLE, HOOK_COMMITS, NOTES

checks = []
for pid in sorted(CHECKS):
    m = META[pid]
    checks.append({
        "property_id": pid,
        "quick_cmd": "bin/vcheck %s quick" % pid,
        "thorough_cmd": "bin/vcheck %s thorough" % pid,
        "evidence_file": "/verif/evidence/%s.json" % pid,
        "replay_cmd_template": "bin/vcheck replay %s {path}" % pid,
        "engine": "harness",
        "level_claimed": {"category": CHECKS[pid].get("level", "exploration"), "text": m["level_text"], "design_ref": m["design_ref"]},
        "level_note": m["level_note"],
        "technique": m["technique"],
    })
man = {
    "version": 1,
    "setup_cmd": "bin/setup",
    "hooks": {
        "guard": "verif",
        "enable": "go build tag: go test -tags verif (harness module replaces github.com/bartossh/Computantis/src with /repo/src)",
        "baseline_off_cmd": "cd /repo/src && go test -json -vet=off -count=1 -timeout 25m ./...",
        "source_commits": HOOK_COMMITS,
        "add_only": True,
    },
    "engines": [{
        "name": "harness", "path": "/verif/harness",
        "serves_properties": sorted(CHECKS),
        "kind_free_text": "Go test binary (pgregory.net/rapid v1.3.0 property-based tests, exhaustive small-scope enumerations, native go fuzz targets) driven by bin/vcheck which shards, seeds, merges statistics into evidence and classifies failures against known-findings.txt",
    }],
    "checks": checks,
    "notes": NOTES,
    "not_applicable": NOT_APPLICABLE,
}
json.dump(man, open(os.path.join(os.path.dirname(HERE), "MANIFEST.json"), "w"), indent=1)
print("MANIFEST.json written: %d checks, %d not_applicable" % (len(checks), len(NOT_APPLICABLE)))
