# Human-written text for MANIFEST.json entries (see bin/genmanifest.py).
HOOK_COMMITS = ["efc17db", "9ef71b0", "f0877fd"]
NOTES = "Property-based testing and fuzzing only; see DESIGN.md. Properties not yet claimed are listed under not_applicable with the reason 'check not built yet' until their check lands."

ALL = ["C%02d" % i for i in range(1, 21)]

META = {
    "C05": dict(
        level_text="Exhaustive over the product of boundary values of every 64-bit component plus tens of thousands of biased random triples, judged against math/big arithmetic; exploration, not proof, because the 2^384 input space is sampled outside the boundary product.",
        design_ref="DESIGN.md §4 C05",
        level_note="Trusted: math/big, the boundary set chosen from the constants in spice.go (10^18, 2^63, 2^64). Aliased from/to pointers not exercised.",
        technique="property-based testing: exhaustive boundary product + rapid random triples vs big-integer reference model",
    ),
    "C20": dict(
        level_text="Complete enumeration of truncation lengths, single-byte corruptions and single-bit key errors for a set of wallets with 16- and 32-byte keys, plus random multi-byte damage, saves over stale files of 0..5000 bytes already at the path and PEM round trips of random wallets; every outcome must be the identical wallet or an error under recover().",
        design_ref="DESIGN.md §4 C20",
        level_note="Trusted: Go crypto/aes, crypto/cipher GCM, encoding/gob. File system errors are not injected.",
        technique="property-based testing: exhaustive fault enumeration over file bytes/keys + rapid random damage, round-trip oracle",
    ),
    "C08": dict(
        level_text="Exhaustive cancellation index k=0..n+1 for every cancellable operation on small chain/wide DAGs, plus random (operation, shape, size<=60, k) cases, arithmetic early exits, real truncations of >1000-vertex chains and slow-consumer x writer streaming scenarios; verdict from the goroutine profile (parked walker / lock cycle) and probe operations, never from a timeout alone.",
        design_ref="DESIGN.md §4 C08, §3.4",
        level_note="Trusted: Go runtime goroutine dump format; the counting context models cancellation between two polls of ctx.Done(). Goroutine-level preemption points inside one call are not enumerated. A watchdog hit without a blocking pattern is reported as inconclusive.",
        technique="property-based testing with fault injection (counting context cancellation points, exhaustive at small scope) + deterministic goroutine-profile oracle",
    ),
    "C01": dict(
        level_text="Hundreds (quick) to thousands (thorough) of generated multi-node histories per run, each judged operation by operation: every vertex that becomes confirmed is re-evaluated with a big-integer funds test over its declared ancestors plus the checkpoint. Exploration: histories are sampled; concurrent batches sample interleavings.",
        design_ref="DESIGN.md §4 C01, §3",
        level_note="Self-transfers are judged as the code does (own amount counted on both sides). Worlds whose checkpoint already overdraws a wallet (only via the C02 merge finding or the trusted exemption) are classified under a known finding. Truncation cases are a minority (every 15th case quick, every 6th thorough).",
        technique="stateful property-based testing (rapid) against a reference ledger model, invariant over the recorded history",
    ),
    "C02": dict(
        level_text="Generated 2-4 node histories with arbitrary delayed delivery; conservation and no-overdraft evaluated over the union of confirmed vertices at every quiescent point with math/big. Serialized-spender mode excludes the known merge double-spend by construction and must hold strictly.",
        design_ref="DESIGN.md §4 C02",
        level_note="The supply-sum clause is an identity on the harness archive (every transfer debits one wallet and credits another), so it is decided through the per-wallet clause and through C06's node-reported balances; stated in DESIGN.md. Trusted sealers excluded as the statement says.",
        technique="stateful property-based testing (rapid), conservation invariant at quiescent points, known-finding classifier",
    ),
    "C03": dict(
        level_text="Generated histories with replay operators; after every operation the uniqueness of transaction and vertex hashes over live+checkpoint and the exactness of the transaction index are recomputed from the snapshot; plus a sync clause: a peer's stream in which one transaction is sealed by two distinct vertices, loaded by a fresh node that must not go into service holding both.",
        design_ref="DESIGN.md §4 C03",
        level_note="Concurrent duplicates are sampled, not enumerated: 3 parallel deliveries of one vertex, proposal batches, and one fresh transaction offered at once as two differently sealed vertices and/or as 2-3 bare proposals.",
        technique="stateful property-based testing (rapid) with duplicate/replay operators, snapshot invariants",
    ),
    "C06": dict(
        level_text="Every balance answer in generated histories (multi-tip, truncated, boundary amounts, absent/genesis addresses, three repetitions) must equal the reference value for some current tip; the query must leave the snapshot digest unchanged. Every second process also queries untouched wallets WHILE the real truncate runs (answers must equal the pre-truncation value).",
        design_ref="DESIGN.md §4 C06",
        level_note="Uses the node's own stored checkpoint figure (C07 judges that figure). Cross-node agreement follows from judging every node against the same reference.",
        technique="stateful property-based testing (rapid), differential against math/big reference per tip",
    ),
    "C09": dict(
        level_text="After every operation of generated histories the snapshot is checked for acyclicity (Kahn), edge set == declared live parents, missing parents checkpointed, id == hash == independently recomputed digest and signatures. Part of the transactions are receiver-countersigned, and crafted vertices are preceded by tampered copies (one sealed field changed, seal left alone) that must be refused.",
        design_ref="DESIGN.md §4 C09",
        level_note="Digest/signature recomputation is the harness's own (harness/ref), written from the message layout.",
        technique="stateful property-based testing (rapid), structural invariants recomputed from snapshots",
    ),
    "C10": dict(
        level_text="Rule-breaking offers (self-sealed, genesis wallet as issuer, empty transaction) through proposal, gossip and orphan replay at random positions of generated histories; every vertex of every node is scanned after every operation.",
        design_ref="DESIGN.md §4 C10",
        level_note="Synced ledgers: an enumerated sync clause (a peer's honest stream + one rule-breaking vertex of 5 kinds x 3 payloads x tip/mid-DAG, and four rule-breaking requests sent WHILE the stream is being read); a node that ends up loaded must not hold such a vertex.",
        technique="stateful property-based testing (rapid), snapshot scan invariant",
    ),
    "C17": dict(
        level_text="Sequential call sequences (save, re-save, remove, read, expiry of single entries through a guarded hook, balance entries of the same cache) are model-checked step by step against a map (full shrinking, fresh cache per case); concurrent batches on shared addresses are compared with {saves} - {removals} at quiescence over many rounds and GOMAXPROCS settings.",
        design_ref="DESIGN.md §4 C17",
        level_note="Eviction and the 5-minute expiry are out of reach (bigcache reads the wall clock). Concurrent clause is sampling; it includes several callers saving the SAME transaction and removals racing with a re-save. Sequences also contain saves/removals of cached balances on the same cache object with the key strings the notary can be made to pass.",
        technique="stateful model-based property testing (rapid) + randomized concurrent batches against a map model",
    ),
    "C19": dict(
        level_text="One-field-at-a-boundary and all-pairs enumeration over the listed lengths, contents, integers and timestamps plus thousands of random vertices, pushed through every transcoding pair (wire mapping in memory and through proto.Marshal, transaction transformers, msgpack encode/decode of vertex, transaction, melange, balance); every signed field compared and validly signed originals re-verified with both the harness's and the repository's verifier.",
        design_ref="DESIGN.md §4 C19",
        level_note="Timestamps restricted to the int64-nanosecond range. proto.Marshal refusing invalid UTF-8 is an accepted, counted outcome.",
        technique="property-based testing: round-trip oracle over boundary-product enumeration + rapid random fill",
    ),
    "C13": dict(
        level_text="A retry-bound clause (a vertex whose parent never arrives survives the documented 25 failed retries and is gone after 75, read from the buffer's own counter); a long-lived target node taken through 3-9 rounds of child-before-parent fans and chains (up to 495 parked at once, > 500 retries over its lifetime), all delivery permutations of three 4/5-vertex segment shapes plus random schedules (2-20 vertex segments with diamonds and two-depth parents, duplicates, retry steps, local proposals, invalid vertices); the final target ledger must contain the whole valid history with its declared edges, nothing twice, empty buffer.",
        design_ref="DESIGN.md §4 C13",
        level_note="The premise (V is valid) is established per case by a reference node fed parents-first; cases where it rejects are discarded and counted. Retry goes through the hook calling the real admission path.",
        technique="property-based testing: schedule/permutation enumeration + rapid schedules, differential against parents-first delivery",
    ),
    "C07": dict(
        level_text="Each case performs one or two real truncations of a generated two-node ledger (>=1001 filler vertices each) and compares per-tip per-address balances across the cut, by-hash reads, moved == checkpointed, checkpoint funds == net flow of checkpointed vertices, refusal of re-submissions with unchanged snapshot, and the twin node's decisions on follow-ups.",
        design_ref="DESIGN.md §4 C07",
        level_note="A truncation error is accepted only when some tip has fewer than 1000 live ancestors (premise of the call) and then the ledger must be unchanged. Addresses whose true checkpointed net is negative (genesis issuer) are excluded from the funds equality. 'Truncation racing with proposals': one race scenario per process (4 in thorough) runs the real truncate against readers of untouched wallets and proposers of an overdrawing spend; interleavings are sampled.",
        technique="stateful property-based testing (rapid) with a twin-node differential and before/after metamorphic relations",
    ),
    "C04": dict(
        level_text="Complete single-bit-flip enumeration over every fixed-width field of sample vertices, a catalogue of structural mutations (truncate/extend/empty, byte shifts across adjacent signed fields, swaps with another valid vertex, re-signing by another wallet, stripping the receiver signature, address corruption and aliasing) at struct and wire level, plus random draws; each mutant must be rejected with the snapshot digest unchanged. Two wire-format holes are known findings keyed by mutation operator.",
        design_ref="DESIGN.md §4 C04",
        level_note="Mutants that equal the original in every signed field after decoding are trivial and not offered. Known findings taint the base ledger; the world is rebuilt after each and the excluded cases are counted.",
        technique="property-based testing: mutation-based (metamorphic) generation over valid vertices, exhaustive single-bit flips, reject-and-unchanged oracle",
    ),
    "C14": dict(
        level_text="Source ledgers come from generated histories (multi-tip, rogue branches, optionally truncated); the peer's real stream is checked against its live graph, optionally permuted or corrupted once, loaded directly or through the real LoadDag RPC over an in-memory connection; loaded ledgers are compared vertex by vertex, edge by edge, balance by balance and by follow-up gossip outcomes with the peer.",
        design_ref="DESIGN.md §4 C14",
        level_note="Two known findings (truncated peer not syncable; weight/throughput state not transferred). After a weight-rule divergence the case stops comparing. Completion of the asynchronous LoadDag behind updateDag is detected from the goroutine profile.",
        technique="property-based testing: differential (peer vs loaded node) over generated ledgers, stream permutations and single-fault injection",
    ),
    "C16": dict(
        level_text="Generated call sequences by honest and dishonest clients against the real notary service object, judged by a reference state machine (awaiting, sealed, tentative, challenge) after every step and by authentication implications on every read; concurrent copies of one request are included.",
        design_ref="DESIGN.md §4 C16",
        level_note="Success of a valid request is not demanded (the statement does not promise it; the sealing step may legitimately fail while it drops an invalid tip) - only that invalid requests change nothing, sealing needs the receiver, reads need the signed current challenge. Challenge expiry uses the real clock in one scenario per run (1 s longevity: untouched, and presented at 0.6 s with a valid / junk signature; refused at 1.25 s).",
        technique="stateful model-based property testing (rapid) against a reference state machine",
    ),
    "C11": dict(
        level_text="A virtual network of real gossip nodes (real ledgers, awaiting caches and duplicate-suppression memories) whose peer tables hold harness stubs; the harness is the scheduler. Every connected labelled graph on 2-4 nodes x every origin x {vertex, awaiting transaction, propose-then-confirm flow} with depth-first enumeration of delivery orders (capped per graph/origin in quick), duplicated deliveries, items with broken signatures, and random graphs on 5-6 nodes.",
        design_ref="DESIGN.md §4 C11, §3.3",
        level_note="Message loss is outside the fault model. The suppression window is not waited out in real time: a switchable wrapper around the node's real recent-hash memory stands for 'the window has elapsed' when a late duplicate of a vertex is delivered. Exhaustive flag is true only when no enumeration hit its cap.",
        technique="property-based testing with harness-owned message scheduling: exhaustive small-scope schedule enumeration + rapid schedules, invariants over the recorded message history",
    ),
    "C12": dict(
        level_text="C11's network with one node replaced by an adversarial relay played by the harness, assembling gossiper lists from garbage of correct lengths, malformed entries (wrong digest length, no address, nil) placed before valid ones, entries harvested from other items, forged, own and sybil entries; all relay positions on 3-4 node graphs plus sampled 5-node graphs, random delivery orders.",
        design_ref="DESIGN.md §4 C12",
        level_note="The adversary forwards intact items; amplification (an extra forward burst at the origin) is observed and not judged, as the statement is about suppression.",
        technique="property-based testing with an adversarial relay model and harness-owned scheduling",
    ),
    "C15": dict(
        level_text="Product of per-field shape classes for every request type of the three services (hundreds of thousands of requests per run) plus vertices handed to the real sync / missing-parent clients by a malicious in-memory peer (including refused vertices that name a transaction the node is currently awaiting), each under recover with ledger snapshot, awaiting lists and peer table compared on every error return; random combinations on top.",
        design_ref="DESIGN.md §4 C15",
        level_note="In-process calls on the real service objects; coverage-guided native fuzzing of serialized requests (FuzzC15) runs only in the thorough tier for a fixed wall-clock time. One known finding keyed by its state-change pattern.",
        technique="property-based testing: exhaustive shape-class product + rapid, no-panic and unchanged-on-rejection oracles",
    ),
    "C18": dict(
        level_text="Randomized concurrent workloads over the ledger API, the retry/truncate triggers, the gossip handler and the awaiting cache on a -race build, long enough for the 2 s retry tick to fall inside, some of them on a node whose OWN truncation loop fires during the workload; the detector's reports are parsed and attributed to repository function pairs.",
        design_ref="DESIGN.md §4 C18",
        level_note="Sampling of interleavings: a green run means no race executed in the sampled schedules. Workload plans are generated by rapid (Example) but executed outside rapid.Check, because a detected race marks testing.T failed and aborts the library.",
        technique="randomized concurrency testing with the Go race detector as oracle (rapid-generated workloads)",
    ),
}

def _na():
    from vconfig import CHECKS
    return [{"property_id": p, "reason": "check not built yet in this session (claimed by design; see DESIGN.md §4)"} for p in ALL if p not in CHECKS]

NOT_APPLICABLE = _na()
