# Human-written text for MANIFEST.json entries (see bin/genmanifest.py).
HOOK_COMMITS = ["efc17db"]
NOTES = "Property-based testing and fuzzing only; see DESIGN.md. Properties not yet claimed are listed under not_applicable with the reason 'check not built yet' until their check lands."

ALL = ["C%02d" % i for i in range(1, 21)]

META = {
    "C05": dict(
        level_text="Exhaustive over the product of boundary values of every 64-bit component plus tens of thousands of biased random triples, judged against math/big arithmetic; exploration, not proof, because the 2^384 input space is sampled outside the boundary product.",
        design_ref="DESIGN.md §4 C05",
        level_note="Trusted: math/big, the boundary set chosen from the constants in spice.go (10^18, 2^63, 2^64). Aliased from/to pointers not exercised.",
        technique="property-based testing: exhaustive boundary product + rapid random triples vs big-integer reference model",
    ),
    "C20": dict(
        level_text="Complete enumeration of truncation lengths, single-byte corruptions and single-bit key errors for a set of wallets with 16- and 32-byte keys, plus random multi-byte damage; every outcome must be the identical wallet or an error under recover().",
        design_ref="DESIGN.md §4 C20",
        level_note="Trusted: Go crypto/aes, crypto/cipher GCM, encoding/gob. File system errors are not injected.",
        technique="property-based testing: exhaustive fault enumeration over file bytes/keys + rapid random damage, round-trip oracle",
    ),
    "C08": dict(
        level_text="Exhaustive cancellation index k=0..n+1 for every cancellable operation on small chain/wide DAGs, plus random (operation, shape, size<=60, k) cases, arithmetic early exits, real truncations of >1000-vertex chains and slow-consumer x writer streaming scenarios; verdict from the goroutine profile (parked walker / lock cycle) and probe operations, never from a timeout alone.",
        design_ref="DESIGN.md §4 C08, §3.4",
        level_note="Trusted: Go runtime goroutine dump format; the counting context models cancellation between two polls of ctx.Done(). Goroutine-level preemption points inside one call are not enumerated. A watchdog hit without a blocking pattern is reported as inconclusive.",
        technique="property-based testing with fault injection (counting context cancellation points, exhaustive at small scope) + deterministic goroutine-profile oracle",
    ),
}

def _na():
    from vconfig import CHECKS
    return [{"property_id": p, "reason": "check not built yet in this session (claimed by design; see DESIGN.md §4)"} for p in ALL if p not in CHECKS]

NOT_APPLICABLE = _na()
