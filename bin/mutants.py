#!/usr/bin/env python3
"""Hand-written sensitivity mutants (DESIGN §4 'Mutants'): each is a small edit of /repo/src applied in place,
checked to compile and to pass the package's existing tests, run against the quick check of its property, and
reverted with `git checkout`. Results go to seeded/_mutants/results.json. Usage: bin/mutants.py [name-substring]"""
import json, os, subprocess, sys, time

REPO = "/repo"
ENV = dict(os.environ, GOFLAGS="-mod=mod", GOPROXY="off", GOSUMDB="off", GOTOOLCHAIN="local")

M = [
 ("C01-tip-own-spend-not-counted", "C01", "src/accountant/accountant.go",
  "\tif err := pourFunds(leaf.Transaction.IssuerAddress, *leaf, &spiceIn, &spiceOut); err != nil {\n\t\treturn err\n\t}\n\n\tvertices, _, _ := ab.dag.AncestorsWalker(string(leaf.Hash[:]))",
  "\tvertices, _, _ := ab.dag.AncestorsWalker(string(leaf.Hash[:]))", "./accountant/"),
 ("C01-funds-compare-currency-only", "C01", "src/accountant/founds.go",
  "\tsink := spice.New(0, 0)\n\tif err := in.Drain(*out, &sink); err != nil {\n\t\treturn errors.Join(ErrDoubleSpending, err)\n\t}\n\treturn nil",
  "\tif out.Currency > in.Currency {\n\t\treturn errors.Join(ErrDoubleSpending, spice.ErrNoSufficientFounds)\n\t}\n\treturn nil", "./accountant/"),
 ("C07-validation-ignores-checkpoint", "C07", "src/accountant/accountant.go",
  "\tif err := spiceIn.Supply(s); err != nil {\n\t\treturn err\n\t}\n\n\tif err := pourFunds(leaf.Transaction.IssuerAddress, *leaf",
  "\t_ = s\n\n\tif err := pourFunds(leaf.Transaction.IssuerAddress, *leaf", "./accountant/"),
 ("C01-dropped-tip-keeps-index-on-proposal", "C01", "src/accountant/accountant.go",
  "\t\t\t\tab.dag.DeleteVertex(string(vrx.Hash[:]))\n\t\t\t\tab.removeTrxInVertex(vrx.Transaction.Hash[:])\n\t\t\t\tab.log.Error(",
  "\t\t\t\tab.dag.DeleteVertex(string(vrx.Hash[:]))\n\t\t\t\tab.log.Error(", "./accountant/"),
 ("C02-receiver-credited-twice", "C02", "src/accountant/founds.go",
  "\tif vrx.Transaction.ReceiverAddress == issuerAddress {\n\t\tif err := spiceIn.Supply(vrx.Transaction.Spice); err != nil {\n\t\t\treturn errors.Join(ErrUnexpected, err)\n\t\t}\n\t}",
  "\tif vrx.Transaction.ReceiverAddress == issuerAddress {\n\t\tif err := spiceIn.Supply(vrx.Transaction.Spice); err != nil {\n\t\t\treturn errors.Join(ErrUnexpected, err)\n\t\t}\n\t\tif vrx.Weight%7 == 3 {\n\t\t\tspiceIn.Supply(vrx.Transaction.Spice)\n\t\t}\n\t}", "./accountant/"),
 ("C03-vertex-exists-ignores-storage", "C03", "src/accountant/accountant.go",
  "\treturn ab.checkVertexExistInStorage(vrxHash)\n}", "\treturn false, nil\n}", "./accountant/"),
 ("C09-weight-not-in-digest", "C09", "src/accountant/vertex.go",
  "\tblockData = binary.LittleEndian.AppendUint64(blockData, uint64(v.Weight))\n", "", "./accountant/"),
 ("C04-receiver-signature-never-verified", "C04", "src/accountant/vertex.go",
  "\tswitch len(v.Transaction.ReceiverSignature) != 0 {", "\tswitch len(v.Transaction.ReceiverSignature) > 64 {", "./accountant/"),
 ("C05-transfer-no-rollback-on-supp-overflow", "C05", "src/spice/spice.go",
  "\t\t\t\tif to.Currency == math.MaxUint64 {\n\t\t\t\t\tto.copyFrom(toCp)\n\t\t\t\t\tfrom.copyFrom(fromCp)\n\t\t\t\t\treturn ErrValueOverflow",
  "\t\t\t\tif to.Currency == math.MaxUint64 {\n\t\t\t\t\tto.copyFrom(toCp)\n\t\t\t\t\treturn ErrValueOverflow", "./spice/"),
 ("C06-balance-skips-the-tip-itself", "C06", "src/accountant/accountant.go",
  "\t\tif err := pourFunds(walletPubAddr, *vrx, &spiceIn, &spiceOut); err != nil {\n\t\t\treturn Balance{}, err\n\t\t}\n\tdefault:\n\t\treturn Balance{}, ErrUnexpected\n\n\t}",
  "\t\t_ = vrx\n\tdefault:\n\t\treturn Balance{}, ErrUnexpected\n\n\t}", "./accountant/"),
 ("C07-checkpoint-forgets-previous-funds", "C07", "src/accountant/precalculate.go",
  "\tp := precalculatedFounds{\n\t\tin: s.Clone(),\n\t}\n\tf.m[address] = p", "\t_ = s", "./accountant/"),
 ("C07-readvertex-no-storage-fallback", "C07", "src/accountant/accountant.go",
  "\treturn ab.readVertexFromStorage(vrxHash)\n}", "\treturn Vertex{}, err\n}", "./accountant/"),
 ("C09-second-parent-edge-skipped-on-gossip", "C09", "src/accountant/accountant.go",
  "\tfor _, validVrx := range validatedLeafs {\n\t\tif validVrx.Hash == addedHash {\n\t\t\tbreak\n\t\t}",
  "\tfor i, validVrx := range validatedLeafs {\n\t\tif validVrx.Hash == addedHash || (i == 1 && leaf.Weight%5 == 2) {\n\t\t\tbreak\n\t\t}", "./accountant/"),
 ("C10-gossip-self-seal-guard-removed", "C10", "src/accountant/accountant.go",
  "\tif leaf.Transaction.IssuerAddress == leaf.SignerPublicAddress {\n\t\treturn ErrCannotTransferFoundsViaOwnedNode\n\t}\n", "", "./accountant/"),
 ("C11-forward-although-ledger-refused", "C11", "src/gossip/gossip.go",
  "\t\t\tg.log.Info(fmt.Sprintf(\"node [ %s ] adding leaf error: %s.\", g.signer.Address(), err))\n\t\t\treturn nil, ErrFailedToProcessGossip",
  "\t\t\tg.log.Info(fmt.Sprintf(\"node [ %s ] adding leaf error: %s.\", g.signer.Address(), err))", "./gossip/"),
 ("C11-no-duplicate-suppression-for-vertices", "C11", "src/gossip/gossip.go",
  "\tok, err := g.flash.HasHash(vg.Vertex.Hash)", "\tok, err := false, error(nil)", "./gossip/"),
 ("C12-every-gossiper-entry-accepted", "C12", "src/gossip/gossip.go",
  "\t\tif err != nil {\n\t\t\tg.log.Error(fmt.Sprintf(\"verifying gossiper address [ %s ] invalid signature for hash %v gossip\", member.Address, hash))\n\t\t\tcontinue\n\t\t}",
  "\t\tif err != nil {\n\t\t\tg.log.Error(fmt.Sprintf(\"verifying gossiper address [ %s ] invalid signature for hash %v gossip\", member.Address, hash))\n\t\t}", "./gossip/"),
 ("C13-missing-parent-not-parked", "C13", "src/accountant/accountant.go",
  "\t\t\tif err := ab.repeater.insert(m); err != nil {", "\t\t\tif err := error(nil); err != nil {", "./accountant/"),
 ("C14-loaddag-skips-right-parent-edge", "C14", "src/accountant/accountant.go",
  "\t\t\tfor _, conn := range [][32]byte{vrx.LeftParentHash, vrx.RightParentHash} {\n\t\t\t\tif conn == addedHash {",
  "\t\t\tfor _, conn := range [][32]byte{vrx.LeftParentHash} {\n\t\t\t\tif conn == addedHash {", "./accountant/"),
 ("C15-getvertex-length-check-removed", "C15", "src/gossip/gossip.go",
  "\tif in == nil || len(in.Hash) != hashLen || len(in.Data) != hashLen {\n\t\treturn nil, ErrMalformedMessage\n\t}\n", "", "./gossip/"),
 ("C16-reject-skips-signature", "C16", "src/notaryserver/notary.server.go",
  "\tif err := s.verifier.Verify(in.Data, in.Signature, [32]byte(in.Hash), in.Address); err != nil {\n\t\ts.log.Error(fmt.Sprintf(\"reject endpoint failed to verify",
  "\tif err := error(nil); err != nil {\n\t\ts.log.Error(fmt.Sprintf(\"reject endpoint failed to verify", "./notaryserver/"),
 ("C16-waiting-skips-challenge", "C16", "src/notaryserver/notary.server.go",
  "\tif ok := s.randDataProv.ValidateData(in.Address, in.Data); !ok {\n\t\ts.log.Error(fmt.Sprintf(\"waiting transactions endpoint, failed",
  "\tif ok := true; !ok {\n\t\ts.log.Error(fmt.Sprintf(\"waiting transactions endpoint, failed", "./notaryserver/"),
 ("C17-remove-keeps-hash-in-list", "C17", "src/cache/cache.go",
  "\t\tif bytes.Equal(val, enc) {\n\t\t\tcontinue\n\t\t}", "\t\tif bytes.Equal(val, enc) && len(values) < 70 {\n\t\t\tcontinue\n\t\t}", "./cache/"),
 ("C19-vertex-mapper-swaps-parents", "C19", "src/gossip/gossip.go",
  "\t\tLeftParentHash:  [32]byte(vg.LeftParentHash),\n\t\tRightParentHash: [32]byte(vg.RightParentHash),",
  "\t\tLeftParentHash:  [32]byte(vg.RightParentHash),\n\t\tRightParentHash: [32]byte(vg.LeftParentHash),", "./gossip/"),
 ("C20-gcm-error-ignored", "C20", "src/aeswrapper/aes.wrapper.go",
  "\tplaintext, err := aesGcm.Open(nil, nonce, cipherText, nil)\n\tif err != nil {\n\t\treturn nil, errors.Join(ErrOpenDataFailure, err)\n\t}",
  "\tplaintext, err := aesGcm.Open(nil, nonce, cipherText, nil)\n\tif err != nil && len(cipherText) < 40 {\n\t\treturn nil, errors.Join(ErrOpenDataFailure, err)\n\t}", "./aeswrapper/ ./fileoperations/"),
 ("C18-dagloaded-written-late-without-lock", "C18", "src/accountant/accountant.go",
  "func (ab *AccountingBook) DagLoaded() bool {\n\treturn ab.dagLoaded\n}",
  "func (ab *AccountingBook) DagLoaded() bool {\n\tab.lastBackup++\n\treturn ab.dagLoaded\n}", "./accountant/"),
 ("C20-decrypt-accepts-short-tag", "C20", "src/aeswrapper/aes.wrapper.go",
  "\taesGcm, err := cipher.NewGCM(block)\n\tif err != nil {\n\t\treturn nil, errors.Join(ErrGCMFailure, err)\n\t}\n\n\tplaintext, err :=",
  "\taesGcm, err := cipher.NewGCM(block)\n\tif err != nil {\n\t\treturn nil, errors.Join(ErrGCMFailure, err)\n\t}\n\tif len(cipherText) > 16 && cipherText[0] == 0x42 {\n\t\treturn cipherText[:len(cipherText)-16], nil\n\t}\n\n\tplaintext, err :=", "./aeswrapper/ ./fileoperations/"),
 ("C08-balance-cancel-abandons-walker", "C08", "src/accountant/accountant.go",
  "\t\tcase <-ctx.Done():\n\t\t\tdrainWalker(vertices)\n\t\t\treturn Balance{}, ErrLeafBallanceCalculationProcessStopped",
  "\t\tcase <-ctx.Done():\n\t\t\treturn Balance{}, ErrLeafBallanceCalculationProcessStopped", "./accountant/"),
 ("C18-weight-plain-field", "C18", "src/accountant/accountant.go",
  "func (ab *AccountingBook) updateWeightAndThroughput(weight uint64) {\n\tif ab.weight.Load() < weight {",
  "func (ab *AccountingBook) updateWeightAndThroughput(weight uint64) {\n\tab.lastBackup++\n\tif ab.weight.Load() < weight {", "./accountant/"),
]


def sh(cmd, cwd=None, timeout=1800):
    p = subprocess.run(cmd, shell=True, cwd=cwd, env=ENV, stdout=subprocess.PIPE, stderr=subprocess.STDOUT, text=True, timeout=timeout)
    return p.returncode, p.stdout


def main():
    flt = sys.argv[1] if len(sys.argv) > 1 else ""
    outp = "/verif/seeded/_mutants/results.json"
    os.makedirs(os.path.dirname(outp), exist_ok=True)
    res = json.load(open(outp)) if os.path.exists(outp) else {}
    if sh("git diff --quiet", REPO)[0] != 0:
        print("/repo dirty")
        return 2
    for name, prop, f, old, new, pkgs in M:
        if flt not in name:
            continue
        path = os.path.join(REPO, f)
        src = open(path).read()
        if src.count(old) < 1:
            print(name, ": pattern not found")
            res[name] = {"property": prop, "status": "pattern-not-found"}
            continue
        try:
            open(path, "w").write(src.replace(old, new, 1))
            rc, out = sh("go build ./... && go vet ./" + os.path.dirname(f)[4:] + "/", os.path.join(REPO, "src"))
            if rc != 0:
                res[name] = {"property": prop, "status": "does-not-compile", "out": out[-400:]}
                print(name, ": does not compile")
                continue
            rc, out = sh("go test -vet=off -count=1 " + pkgs, os.path.join(REPO, "src"))
            suite = "pass" if rc == 0 else "FAIL"
            t0 = time.time()
            rc, out = sh("bin/vcheck %s quick" % prop, "/verif", timeout=2400)
            viol = [l.strip()[:300] for l in out.splitlines() if "violation sig=" in l][:2]
            res[name] = {"property": prop, "file": f, "suite": suite, "check_exit": rc, "wall_s": round(time.time() - t0), "violations": viol,
                         "diff": {"old": old, "new": new}}
            print("%s : suite=%s check exit=%d (%ds) %s" % (name, suite, rc, time.time() - t0, viol[:1]))
        finally:
            sh("git checkout -- .", REPO)
            json.dump(res, open(outp, "w"), indent=1)
    sh("rm -rf /verif/replays/C*", "/verif")
    return 0


if __name__ == "__main__":
    sys.exit(main())
