package ref
