// Package ref is the reference model used by the checks: big-integer ledger arithmetic over declared parent
// hashes, and an independent re-implementation of the wire-level digests, address codec and signature checks
// (written from the README / message layout, not by calling the repository's verifier).
package ref

import (
	"bytes"
	"crypto/ed25519"
	"crypto/sha256"
	"encoding/binary"
	"errors"
	"math/big"
	"sort"
	"time"

	"github.com/mr-tron/base58"

	"github.com/bartossh/Computantis/src/accountant"
	"github.com/bartossh/Computantis/src/spice"
	"github.com/bartossh/Computantis/src/transaction"
)

const E18 = uint64(1_000_000_000_000_000_000)

var bigE18 = new(big.Int).SetUint64(E18)

// V is the unbounded integer value of a Melange.
func V(m spice.Melange) *big.Int {
	v := new(big.Int).SetUint64(m.Currency)
	v.Mul(v, bigE18)
	v.Add(v, new(big.Int).SetUint64(m.SupplementaryCurrency))
	return v
}

// FromBig converts a non-negative value back to a canonical Melange (ok=false if not representable).
func FromBig(v *big.Int) (spice.Melange, bool) {
	if v.Sign() < 0 {
		return spice.Melange{}, false
	}
	q, r := new(big.Int).QuoRem(v, bigE18, new(big.Int))
	if !q.IsUint64() {
		return spice.Melange{}, false
	}
	return spice.Melange{Currency: q.Uint64(), SupplementaryCurrency: r.Uint64()}, true
}

type Hash = [32]byte

var Zero Hash

// ---------- independent crypto ----------

func checksum(payload []byte) []byte {
	a := sha256.Sum256(payload)
	b := sha256.Sum256(a[:])
	return b[:4]
}

// Address encodes a public key: base58(version 0x00 | key | first 4 bytes of double sha256).
func Address(pub ed25519.PublicKey) string {
	full := append([]byte{0}, pub...)
	full = append(full, checksum(full)...)
	return base58.Encode(full)
}

// AddressKey decodes an address with checksum verification.
func AddressKey(addr string) (ed25519.PublicKey, error) {
	raw, err := base58.Decode(addr)
	if err != nil {
		return nil, err
	}
	if len(raw) < 6 {
		return nil, errors.New("short address")
	}
	body, cs := raw[:len(raw)-4], raw[len(raw)-4:]
	if !bytes.Equal(checksum(body), cs) {
		return nil, errors.New("checksum")
	}
	return ed25519.PublicKey(body[1:]), nil
}

// VerifySig checks that digest == sha256(message) and that signature is addr's ed25519 signature over the digest.
func VerifySig(message, signature []byte, digest Hash, addr string) bool {
	d := sha256.Sum256(message)
	if d != digest {
		return false
	}
	k, err := AddressKey(addr)
	if err != nil || len(k) != ed25519.PublicKeySize {
		return false
	}
	return ed25519.Verify(k, d[:], signature)
}

func le64(v uint64) []byte {
	b := make([]byte, 8)
	binary.LittleEndian.PutUint64(b, v)
	return b
}

// TxMessage is subject|data|issuer|receiver|LE64(nanos)|LE64(cur)|LE64(supp).
func TxMessage(t *transaction.Transaction) []byte {
	var b bytes.Buffer
	b.WriteString(t.Subject)
	b.Write(t.Data)
	b.WriteString(t.IssuerAddress)
	b.WriteString(t.ReceiverAddress)
	b.Write(le64(uint64(t.CreatedAt.UnixNano())))
	b.Write(le64(t.Spice.Currency))
	b.Write(le64(t.Spice.SupplementaryCurrency))
	return b.Bytes()
}

// VertexMessage is txHash|left|right|LE64(nanos)|LE64(weight).
func VertexMessage(v *accountant.Vertex) []byte {
	var b bytes.Buffer
	b.Write(v.Transaction.Hash[:])
	b.Write(v.LeftParentHash[:])
	b.Write(v.RightParentHash[:])
	b.Write(le64(uint64(v.CreatedAt.UnixNano())))
	b.Write(le64(v.Weight))
	return b.Bytes()
}

// TxValid re-verifies the transaction: hash, issuer signature and (if present) receiver signature.
func TxValid(t *transaction.Transaction) bool {
	m := TxMessage(t)
	if !VerifySig(m, t.IssuerSignature, t.Hash, t.IssuerAddress) {
		return false
	}
	if len(t.ReceiverSignature) != 0 {
		return VerifySig(m, t.ReceiverSignature, t.Hash, t.ReceiverAddress)
	}
	return true
}

// VertexValid re-verifies transaction and sealing signature.
func VertexValid(v *accountant.Vertex) bool {
	if !TxValid(&v.Transaction) {
		return false
	}
	return VerifySig(VertexMessage(v), v.Signature, v.Hash, v.SignerPublicAddress)
}

// Key is a deterministic wallet.
type Key struct {
	Priv ed25519.PrivateKey
	Pub  ed25519.PublicKey
	Addr string
	Name string
}

func NewKey(name string, seed []byte) *Key {
	s := sha256.Sum256(append([]byte("verif-key:"), seed...))
	priv := ed25519.NewKeyFromSeed(s[:])
	pub := priv.Public().(ed25519.PublicKey)
	return &Key{Priv: priv, Pub: pub, Addr: Address(pub), Name: name}
}

// Sign implements the repository's Signer interface (sha256 digest + ed25519 over the digest).
func (k *Key) Sign(message []byte) (digest [32]byte, signature []byte) {
	digest = sha256.Sum256(message)
	return digest, ed25519.Sign(k.Priv, digest[:])
}

func (k *Key) Address() string { return k.Addr }

// MakeTx builds an issuer-signed transaction with an explicit timestamp.
func MakeTx(subject string, amount spice.Melange, data []byte, receiver string, issuer *Key, createdAt time.Time) transaction.Transaction {
	t := transaction.Transaction{
		CreatedAt:         createdAt,
		IssuerAddress:     issuer.Addr,
		ReceiverAddress:   receiver,
		Subject:           subject,
		Data:              data,
		ReceiverSignature: []byte{},
		Spice:             amount,
	}
	t.Hash, t.IssuerSignature = issuer.Sign(TxMessage(&t))
	return t
}

// CounterSign adds the receiver signature.
func CounterSign(t *transaction.Transaction, receiver *Key) {
	_, t.ReceiverSignature = receiver.Sign(TxMessage(t))
}

// Seal builds a vertex sealed by the given key with explicit parents, weight and timestamp.
func Seal(t transaction.Transaction, left, right Hash, weight uint64, createdAt time.Time, sealer *Key) accountant.Vertex {
	v := accountant.Vertex{
		SignerPublicAddress: sealer.Addr,
		CreatedAt:           createdAt,
		Transaction:         t,
		LeftParentHash:      left,
		RightParentHash:     right,
		Weight:              weight,
	}
	v.Hash, v.Signature = sealer.Sign(VertexMessage(&v))
	return v
}

// ---------- reference ledger ----------

// Archive holds every vertex the harness has ever seen, keyed by hash.
type Archive struct {
	V     map[Hash]*accountant.Vertex
	Order []Hash
	anc   map[Hash]map[Hash]struct{}
}

func NewArchive() *Archive {
	return &Archive{V: map[Hash]*accountant.Vertex{}, anc: map[Hash]map[Hash]struct{}{}}
}

func (a *Archive) Add(v *accountant.Vertex) {
	if _, ok := a.V[v.Hash]; ok {
		return
	}
	c := *v
	a.V[v.Hash] = &c
	a.Order = append(a.Order, v.Hash)
}

// Parents returns the distinct, non-zero declared parents.
func Parents(v *accountant.Vertex) []Hash {
	var out []Hash
	if v.LeftParentHash != Zero {
		out = append(out, v.LeftParentHash)
	}
	if v.RightParentHash != Zero && v.RightParentHash != v.LeftParentHash {
		out = append(out, v.RightParentHash)
	}
	return out
}

// Anc returns the transitive declared parents of h that are known to the archive (h excluded).
func (a *Archive) Anc(h Hash) map[Hash]struct{} {
	if s, ok := a.anc[h]; ok {
		return s
	}
	out := map[Hash]struct{}{}
	v, ok := a.V[h]
	if !ok {
		return out
	}
	stack := Parents(v)
	for len(stack) > 0 {
		p := stack[len(stack)-1]
		stack = stack[:len(stack)-1]
		if _, seen := out[p]; seen {
			continue
		}
		pv, ok := a.V[p]
		if !ok {
			continue
		}
		out[p] = struct{}{}
		stack = append(stack, Parents(pv)...)
	}
	a.anc[h] = out
	return out
}

// AncWithin returns transitive declared parents of h following only vertices inside `within`.
func (a *Archive) AncWithin(h Hash, within map[Hash]struct{}) map[Hash]struct{} {
	out := map[Hash]struct{}{}
	v, ok := a.V[h]
	if !ok {
		return out
	}
	stack := Parents(v)
	for len(stack) > 0 {
		p := stack[len(stack)-1]
		stack = stack[:len(stack)-1]
		if _, seen := out[p]; seen {
			continue
		}
		if _, in := within[p]; !in {
			continue
		}
		pv, ok := a.V[p]
		if !ok {
			continue
		}
		out[p] = struct{}{}
		stack = append(stack, Parents(pv)...)
	}
	return out
}

// Flow sums spice received and sent by addr over the vertex set.
func (a *Archive) Flow(set map[Hash]struct{}, addr string) (in, out *big.Int) {
	in, out = new(big.Int), new(big.Int)
	for h := range set {
		v := a.V[h]
		if v == nil {
			continue
		}
		FlowOne(v, addr, in, out)
	}
	return
}

// FlowOne adds the flow of one vertex.
func FlowOne(v *accountant.Vertex, addr string, in, out *big.Int) {
	if v.Transaction.Spice.Currency == 0 && v.Transaction.Spice.SupplementaryCurrency == 0 {
		return
	}
	if v.Transaction.IssuerAddress == addr {
		out.Add(out, V(v.Transaction.Spice))
	}
	if v.Transaction.ReceiverAddress == addr {
		in.Add(in, V(v.Transaction.Spice))
	}
}

func IsSpice(v *accountant.Vertex) bool {
	return v.Transaction.Spice.Currency != 0 || v.Transaction.Spice.SupplementaryCurrency != 0
}

// Union returns a new set with all members.
func Union(sets ...map[Hash]struct{}) map[Hash]struct{} {
	out := map[Hash]struct{}{}
	for _, s := range sets {
		for h := range s {
			out[h] = struct{}{}
		}
	}
	return out
}

// SortedHashes returns the members in a deterministic order.
func SortedHashes(s map[Hash]struct{}) []Hash {
	out := make([]Hash, 0, len(s))
	for h := range s {
		out = append(out, h)
	}
	sort.Slice(out, func(i, j int) bool { return bytes.Compare(out[i][:], out[j][:]) < 0 })
	return out
}

// KeyByAddr finds the key with the given address (nil if none).
func KeyByAddr(keys []*Key, addr string) *Key {
	for _, k := range keys {
		if k.Addr == addr {
			return k
		}
	}
	return nil
}
