//go:build verif

package sim

import (
	"fmt"
	"runtime"
	"strings"
	"time"
)

// Goroutine-profile oracle (DESIGN §3.4): deterministic detection of abandoned graph walkers and of the
// stream/walker/writer lock cycle, without timing thresholds.

type GInfo struct {
	State string
	Stack string
}

// Goroutines returns all goroutines with their state.
func Goroutines() []GInfo {
	buf := make([]byte, 1<<20)
	for {
		n := runtime.Stack(buf, true)
		if n < len(buf) {
			buf = buf[:n]
			break
		}
		buf = make([]byte, 2*len(buf))
	}
	var out []GInfo
	for _, blk := range strings.Split(string(buf), "\n\n") {
		if !strings.HasPrefix(blk, "goroutine ") {
			continue
		}
		hdr := blk[:strings.IndexByte(blk+"\n", '\n')]
		st := ""
		if i := strings.IndexByte(hdr, '['); i >= 0 {
			st = strings.TrimSuffix(hdr[i+1:], "]:")
			if j := strings.IndexByte(st, ','); j >= 0 {
				st = st[:j]
			}
		}
		out = append(out, GInfo{State: st, Stack: blk})
	}
	return out
}

const walkFrame = "dag.(*DAG).walkAncestors"

// WalkerStates counts walker goroutines: parked in chan send, and still active (running/runnable/other).
func WalkerStates() (parked, active int) {
	for _, g := range Goroutines() {
		if !strings.Contains(g.Stack, walkFrame) {
			continue
		}
		if g.State == "chan send" {
			parked++
		} else {
			active++
		}
	}
	return
}

// SettledParkedWalkers polls until no walker is active and returns how many are parked in `chan send`.
// A parked walker whose consumer has returned can never progress and holds the graph read lock.
func SettledParkedWalkers() int {
	for i := 0; i < 2000; i++ {
		p, a := WalkerStates()
		if a == 0 {
			// confirm stable over two more looks
			runtime.Gosched()
			p2, a2 := WalkerStates()
			if a2 == 0 && p2 == p {
				return p
			}
		}
		time.Sleep(time.Millisecond)
	}
	p, _ := WalkerStates()
	return p
}

// LockCycle reports the three-way deadlock pattern: a walker parked in chan send, a goroutine of StreamDAG
// waiting for the graph read lock under GetVertex, and a writer waiting for the graph write lock.
func LockCycle() (walker, streamReader, writer bool) {
	for _, g := range Goroutines() {
		switch {
		case strings.Contains(g.Stack, walkFrame) && g.State == "chan send":
			walker = true
		case strings.Contains(g.Stack, "StreamDAG") && strings.Contains(g.Stack, "RWMutex).RLock") && strings.Contains(g.Stack, "dag.(*DAG).GetVertex"):
			streamReader = true
		case strings.Contains(g.Stack, "RWMutex).Lock") && strings.Contains(g.Stack, "heimdalr/dag.(*DAG)."):
			writer = true
		}
	}
	return
}

// CountFrames counts goroutines having the frame substring.
func CountFrames(sub string) int {
	n := 0
	for _, g := range Goroutines() {
		if strings.Contains(g.Stack, sub) {
			n++
		}
	}
	return n
}

// repoFrames returns the frames part of a goroutine block (the "created by" trailer removed) when it holds a frame
// of the code under test or of the graph library, else "".
func repoFrames(g GInfo) string {
	s := g.Stack
	if i := strings.Index(s, "\ncreated by "); i >= 0 {
		s = s[:i]
	}
	if !strings.Contains(s, "bartossh/Computantis/src/") && !strings.Contains(s, "heimdalr/dag.") {
		return ""
	}
	// drop the header (goroutine id, wait minutes) and argument/offset noise
	lines := strings.Split(s, "\n")
	var keep []string
	for _, l := range lines[1:] {
		if strings.HasPrefix(l, "\t") {
			if j := strings.LastIndex(l, " +0x"); j >= 0 {
				l = l[:j]
			}
		} else if j := strings.LastIndex(l, "("); j >= 0 {
			l = l[:j]
		}
		keep = append(keep, l)
	}
	return g.State + "\n" + strings.Join(keep, "\n")
}

// ConfirmStuck decides, without a timing threshold on the operation itself, whether the code under test is
// blocked for good: over `looks` goroutine profiles `gap` apart, every goroutine that is inside the code under test
// (or the graph library) is parked in a blocking state (never running, runnable or in a syscall) and the whole set
// of such stacks is identical in every profile, and at least one of them waits for a lock or a channel. A slow but
// progressing operation (machine load, GC pressure) shows a running/runnable goroutine or a changing stack in
// at least one look and is NOT confirmed. Returns the verdict and the parked stacks for the report.
func ConfirmStuck(looks int, gap time.Duration) (bool, string) {
	prev, same := "", 0
	for i := 0; i < 4*looks; i++ {
		if i > 0 {
			time.Sleep(gap)
		}
		cur, ok := stuckLook()
		if !ok || (same > 0 && cur != prev) {
			// progress (or a goroutine that just joined the queue for the lock): start counting again
			same = 0
			if ok {
				prev, same = cur, 1
			}
			continue
		}
		prev = cur
		same++
		if same >= looks {
			if len(prev) > 6000 {
				prev = prev[:6000]
			}
			return true, prev
		}
	}
	return false, ""
}

// stuckLook takes one profile. ok is false when
//   - no call made by the harness is inside the code under test any more (it has returned meanwhile), or
//   - any goroutine inside the code under test can run (running, runnable, syscall, sleeping, GC), or
//   - a harness-made call is not parked on a lock, a channel or a wait group.
//
// Idle background loops of the nodes (tickers, subscribers) are part of the compared set but never make a node
// "stuck" by themselves: the verdict is about calls the harness is waiting for.
func stuckLook() (string, bool) {
	var set []string
	targets := 0
	for _, g := range Goroutines() {
		f := repoFrames(g)
		if f == "" {
			continue
		}
		switch g.State {
		case "running", "runnable", "syscall", "sleep":
			return "", false
		}
		if strings.Contains(g.State, "GC") {
			return "", false
		}
		body := g.Stack
		if i := strings.Index(body, "\ncreated by "); i >= 0 {
			body = body[:i]
		}
		if strings.Contains(body, "verif/harness/") {
			// a call of the harness into the node
			parked := g.State == "chan send" || g.State == "chan receive" || g.State == "select" || g.State == "semacquire" || strings.HasPrefix(g.State, "sync.")
			if !parked {
				return "", false
			}
			targets++
			f = "[call made by the harness] " + f
		}
		set = append(set, f)
	}
	if targets == 0 {
		return "", false
	}
	sortStrings(set)
	// the calls the harness waits for first (the report is cut to a few KB)
	var head, rest []string
	for _, x := range set {
		if strings.HasPrefix(x, "[call made by the harness]") {
			head = append(head, x)
		} else {
			rest = append(rest, x)
		}
	}
	return strings.Join(append(head, dedupCount(rest)...), "\n--\n"), true
}

// dedupCount folds identical stacks (idle loops of many nodes) into one entry with a count.
func dedupCount(a []string) []string {
	var out []string
	for i := 0; i < len(a); {
		j := i
		for j < len(a) && a[j] == a[i] {
			j++
		}
		if j-i > 1 {
			out = append(out, fmt.Sprintf("(x%d) %s", j-i, a[i]))
		} else {
			out = append(out, a[i])
		}
		i = j
	}
	return out
}

func sortStrings(a []string) {
	for i := 1; i < len(a); i++ {
		for j := i; j > 0 && a[j] < a[j-1]; j-- {
			a[j], a[j-1] = a[j-1], a[j]
		}
	}
}

// ---------- hooks on a wedged node ----------

// OnWedge is called when one of the harness's own hook calls (parked list, snapshot) does not return: the hooks take the
// node's internal locks, so a lock the node leaked would otherwise hang the harness until the process times out.
// The handler (installed by the checks package) records what it can and ends the process.
var OnWedge func(what string, confirmed bool, stacks string)

func wedge(what string) {
	ok, stacks := ConfirmStuck(5, 400*time.Millisecond)
	if OnWedge != nil {
		OnWedge(what, ok, stacks)
	}
	panic("sim: hook " + what + " did not return (node wedged)")
}
