//go:build verif

package sim

import (
	"runtime"
	"strings"
	"time"
)

// Goroutine-profile oracle (DESIGN §3.4): deterministic detection of abandoned graph walkers and of the
// stream/walker/writer lock cycle, without timing thresholds.

type GInfo struct {
	State string
	Stack string
}

// Goroutines returns all goroutines with their state.
func Goroutines() []GInfo {
	buf := make([]byte, 1<<20)
	for {
		n := runtime.Stack(buf, true)
		if n < len(buf) {
			buf = buf[:n]
			break
		}
		buf = make([]byte, 2*len(buf))
	}
	var out []GInfo
	for _, blk := range strings.Split(string(buf), "\n\n") {
		if !strings.HasPrefix(blk, "goroutine ") {
			continue
		}
		hdr := blk[:strings.IndexByte(blk+"\n", '\n')]
		st := ""
		if i := strings.IndexByte(hdr, '['); i >= 0 {
			st = strings.TrimSuffix(hdr[i+1:], "]:")
			if j := strings.IndexByte(st, ','); j >= 0 {
				st = st[:j]
			}
		}
		out = append(out, GInfo{State: st, Stack: blk})
	}
	return out
}

const walkFrame = "dag.(*DAG).walkAncestors"

// WalkerStates counts walker goroutines: parked in chan send, and still active (running/runnable/other).
func WalkerStates() (parked, active int) {
	for _, g := range Goroutines() {
		if !strings.Contains(g.Stack, walkFrame) {
			continue
		}
		if g.State == "chan send" {
			parked++
		} else {
			active++
		}
	}
	return
}

// SettledParkedWalkers polls until no walker is active and returns how many are parked in `chan send`.
// A parked walker whose consumer has returned can never progress and holds the graph read lock.
func SettledParkedWalkers() int {
	for i := 0; i < 2000; i++ {
		p, a := WalkerStates()
		if a == 0 {
			// confirm stable over two more looks
			runtime.Gosched()
			p2, a2 := WalkerStates()
			if a2 == 0 && p2 == p {
				return p
			}
		}
		time.Sleep(time.Millisecond)
	}
	p, _ := WalkerStates()
	return p
}

// LockCycle reports the three-way deadlock pattern: a walker parked in chan send, a goroutine of StreamDAG
// waiting for the graph read lock under GetVertex, and a writer waiting for the graph write lock.
func LockCycle() (walker, streamReader, writer bool) {
	for _, g := range Goroutines() {
		switch {
		case strings.Contains(g.Stack, walkFrame) && g.State == "chan send":
			walker = true
		case strings.Contains(g.Stack, "StreamDAG") && strings.Contains(g.Stack, "RWMutex).RLock") && strings.Contains(g.Stack, "dag.(*DAG).GetVertex"):
			streamReader = true
		case strings.Contains(g.Stack, "RWMutex).Lock") && strings.Contains(g.Stack, "heimdalr/dag.(*DAG)."):
			writer = true
		}
	}
	return
}

// CountFrames counts goroutines having the frame substring.
func CountFrames(sub string) int {
	n := 0
	for _, g := range Goroutines() {
		if strings.Contains(g.Stack, sub) {
			n++
		}
	}
	return n
}
