//go:build verif

// Package sim is the world simulator: real AccountingBooks driven by explicit operations, with a reference
// archive of every vertex, deterministic wallets and timestamps, snapshots through the verif hook, and an
// operation log that can be replayed without the property-testing library.
package sim

import (
	"bytes"
	"context"
	"crypto/sha256"
	"encoding/hex"
	"errors"
	"fmt"
	"os"
	"runtime"
	"sort"
	"strings"
	"sync"
	"time"

	"github.com/bartossh/Computantis/src/accountant"
	"github.com/bartossh/Computantis/src/spice"
	"github.com/bartossh/Computantis/src/transaction"
	"github.com/bartossh/Computantis/src/wallet"

	"verif/harness/ref"
)

type Hash = ref.Hash

// ---------- logger ----------

// Logger is a synchronous logger.Logger that counts levels and remembers fatals.
type Logger struct {
	mu     sync.Mutex
	Counts map[string]int
	Fatals []string
	Keep   bool
	Lines  []string
}

func NewLogger() *Logger { return &Logger{Counts: map[string]int{}} }

func (l *Logger) add(level, msg string) {
	l.mu.Lock()
	l.Counts[level]++
	if level == "fatal" {
		l.Fatals = append(l.Fatals, msg)
	}
	if l.Keep && len(l.Lines) < 2000 {
		l.Lines = append(l.Lines, level+": "+msg)
	}
	l.mu.Unlock()
}
func (l *Logger) Debug(msg string) { l.add("debug", msg) }
func (l *Logger) Info(msg string)  { l.add("info", msg) }
func (l *Logger) Warn(msg string)  { l.add("warn", msg) }
func (l *Logger) Error(msg string) { l.add("error", msg) }
func (l *Logger) Fatal(msg string) { l.add("fatal", msg) }
func (l *Logger) FatalCount() int {
	l.mu.Lock()
	defer l.mu.Unlock()
	return len(l.Fatals)
}

// ---------- snapshot ----------

type Snap struct {
	Raw       accountant.VerifSnapshot
	Live      map[Hash]*accountant.Vertex
	LiveID    map[Hash]string // graph id the vertex is stored under
	Stored    map[Hash]*accountant.Vertex
	StoredKey map[Hash]Hash
	EdgeInto  map[string]map[string]struct{} // child id -> parent ids (node's own edge list)
	Leaves    map[string]struct{}
	Roots     map[string]struct{}
	Trusted   map[string]bool
	Parked    []accountant.VerifParked
}

func hid(h Hash) string { return string(h[:]) }

func idHash(id string) Hash {
	var h Hash
	copy(h[:], id)
	return h
}

func MakeSnap(raw accountant.VerifSnapshot, parked []accountant.VerifParked) *Snap {
	s := &Snap{
		Raw: raw, Live: map[Hash]*accountant.Vertex{}, LiveID: map[Hash]string{}, Stored: map[Hash]*accountant.Vertex{},
		StoredKey: map[Hash]Hash{}, EdgeInto: map[string]map[string]struct{}{}, Leaves: map[string]struct{}{},
		Roots: map[string]struct{}{}, Trusted: map[string]bool{}, Parked: parked,
	}
	for i := range raw.Live {
		v := &raw.Live[i]
		s.Live[v.Hash] = v
		s.LiveID[v.Hash] = raw.LiveIDs[i]
	}
	for i := range raw.Stored {
		v := &raw.Stored[i]
		s.Stored[v.Hash] = v
		s.StoredKey[v.Hash] = raw.StoredKeys[i]
	}
	for _, e := range raw.Edges {
		m := s.EdgeInto[e[1]]
		if m == nil {
			m = map[string]struct{}{}
			s.EdgeInto[e[1]] = m
		}
		m[e[0]] = struct{}{}
	}
	for _, l := range raw.Leaves {
		s.Leaves[l] = struct{}{}
	}
	for _, r := range raw.Roots {
		s.Roots[r] = struct{}{}
	}
	for _, t := range raw.Trusted {
		s.Trusted[t] = true
	}
	return s
}

// LiveSet returns the set of live vertex hashes.
func (s *Snap) LiveSet() map[Hash]struct{} {
	out := make(map[Hash]struct{}, len(s.Live))
	for h := range s.Live {
		out[h] = struct{}{}
	}
	return out
}

func (s *Snap) StoredSet() map[Hash]struct{} {
	out := make(map[Hash]struct{}, len(s.Stored))
	for h := range s.Stored {
		out[h] = struct{}{}
	}
	return out
}

// Confirmed = live vertices that are the declared parent of a live vertex, plus every checkpointed vertex.
// Derived from declared parent hashes, not from the node's edge list.
func (s *Snap) Confirmed() map[Hash]struct{} {
	out := map[Hash]struct{}{}
	for _, v := range s.Live {
		for _, p := range ref.Parents(v) {
			if _, ok := s.Live[p]; ok {
				out[p] = struct{}{}
			}
		}
	}
	for h := range s.Stored {
		out[h] = struct{}{}
	}
	return out
}

// Tips = live vertices that are nobody's declared parent.
func (s *Snap) Tips() map[Hash]struct{} {
	hasChild := map[Hash]struct{}{}
	for _, v := range s.Live {
		for _, p := range ref.Parents(v) {
			hasChild[p] = struct{}{}
		}
	}
	out := map[Hash]struct{}{}
	for h := range s.Live {
		if _, ok := hasChild[h]; !ok {
			out[h] = struct{}{}
		}
	}
	return out
}

// Digest is a canonical fingerprint of everything observable: live and stored vertices (all signed fields),
// edges, funds, index, parked list. Used for "unchanged" and "equal ledgers" oracles.
func (s *Snap) Digest(includeParked bool) string {
	h := sha256.New()
	wv := func(tag string, v *accountant.Vertex) {
		fmt.Fprintf(h, "%s|%x|%x|%x|%d|%d|%s|%x|", tag, v.Hash, v.LeftParentHash, v.RightParentHash, v.Weight, v.CreatedAt.UnixNano(), v.SignerPublicAddress, v.Signature)
		t := &v.Transaction
		fmt.Fprintf(h, "%x|%d|%s|%s|%q|%x|%x|%x|%d|%d\n", t.Hash, t.CreatedAt.UnixNano(), t.IssuerAddress, t.ReceiverAddress, t.Subject, t.Data, t.IssuerSignature, t.ReceiverSignature, t.Spice.Currency, t.Spice.SupplementaryCurrency)
	}
	for _, k := range ref.SortedHashes(s.LiveSet()) {
		wv("L", s.Live[k])
	}
	for _, k := range ref.SortedHashes(s.StoredSet()) {
		wv("S", s.Stored[k])
	}
	var edges []string
	for c, ps := range s.EdgeInto {
		for p := range ps {
			edges = append(edges, fmt.Sprintf("%x>%x", p, c))
		}
	}
	sort.Strings(edges)
	fmt.Fprintf(h, "E%s\n", strings.Join(edges, ","))
	var funds []string
	for a, m := range s.Raw.Funds {
		funds = append(funds, fmt.Sprintf("%s=%d.%d", a, m.Currency, m.SupplementaryCurrency))
	}
	sort.Strings(funds)
	fmt.Fprintf(h, "F%s\n", strings.Join(funds, ","))
	var idx []string
	for k, v := range s.Raw.Index {
		idx = append(idx, fmt.Sprintf("%x=%x", k, v))
	}
	sort.Strings(idx)
	fmt.Fprintf(h, "I%s\n", strings.Join(idx, ","))
	if includeParked {
		var pk []string
		for _, p := range s.Parked {
			pk = append(pk, fmt.Sprintf("%x", p.Hash))
		}
		sort.Strings(pk)
		fmt.Fprintf(h, "P%s\n", strings.Join(pk, ","))
	}
	return hex.EncodeToString(h.Sum(nil))
}

// ---------- world ----------

type Config struct {
	Nodes    int    `json:"nodes"`
	Users    int    `json:"users"`
	GenesisC uint64 `json:"genesis_c,string"`
	GenesisS uint64 `json:"genesis_s,string"`
	Seed     string `json:"seed"`
	Truncate uint64 `json:"truncate"` // Config.Truncate for the books (0 = default, never triggers in a test)
}

type Node struct {
	Idx    int
	Book   *accountant.AccountingBook
	Key    *ref.Key
	Log    *Logger
	cancel context.CancelFunc
}

type World struct {
	Cfg     Config
	Nodes   []*Node
	Wallets []*ref.Key // 0 genesis receiver, 1..U users, then node wallets, then 2 rogue sealers
	Arch    *ref.Archive
	Genesis accountant.Vertex
	Pool    []map[Hash]struct{} // per node: vertices not yet offered
	Ops     []Op
	clock   int64
	Epoch   time.Time
	mu      sync.Mutex
	Closed  bool
	extra   []*Node
}

func (w *World) GenesisReceiver() *ref.Key { return w.Wallets[0] }
func (w *World) User(i int) *ref.Key       { return w.Wallets[1+i] }
func (w *World) NodeWallet(i int) int      { return 1 + w.Cfg.Users + i }
func (w *World) RogueWallet(i int) int     { return 1 + w.Cfg.Users + w.Cfg.Nodes + i }
func (w *World) NumWallets() int           { return len(w.Wallets) }

// ErrStuck is returned when a call into the code under test did not return in time.
var ErrStuck = errors.New("sim: call did not return (stuck)")

// CallTimeout is the watchdog period of every call into the code under test. An expiry is not a verdict: GuardT then
// consults the goroutine profile (ConfirmStuck) and keeps waiting while the node is seen making progress.
var CallTimeout = 30 * time.Second

// guard runs f under recover with a watchdog.
func guard(f func() error) (err error) { return GuardT(CallTimeout, f) }

// GuardT runs f under recover with a watchdog of the given duration.
func GuardT(timeout time.Duration, f func() error) (err error) {
	done := make(chan error, 1)
	go func() {
		defer func() {
			if r := recover(); r != nil {
				buf := make([]byte, 4096)
				buf = buf[:runtime.Stack(buf, false)]
				done <- fmt.Errorf("PANIC: %v\n%s", r, buf)
			}
		}()
		done <- f()
	}()
	for period := 0; period < 3; period++ {
		select {
		case e := <-done:
			return e
		case <-time.After(timeout):
		}
		if os.Getenv("VERIF_DEBUG") != "" {
			var sb strings.Builder
			for _, g := range Goroutines() {
				if strings.Contains(g.Stack, "sim.GuardT") {
					sb.WriteString(g.Stack + "\n\n")
				}
			}
			os.WriteFile(fmt.Sprintf("/tmp/guard-expired-%d-%d.txt", os.Getpid(), period), []byte(sb.String()), 0o644)
		}
		if ok, _ := ConfirmStuck(3, 300*time.Millisecond); ok {
			return ErrStuck
		}
		// slow, not parked (machine load, collector pressure): give it more time
	}
	return ErrStuck
}

// ParkedList is VerifParkedList behind the watchdog (the hook takes the orphan buffer's lock).
func ParkedList(b *accountant.AccountingBook) []accountant.VerifParked {
	var out []accountant.VerifParked
	if err := GuardT(CallTimeout, func() error { out = b.VerifParkedList(); return nil }); err != nil {
		wedge("VerifParkedList")
	}
	return out
}

// RawSnapshot is VerifSnapshot behind the watchdog (the hook takes the ledger read lock).
func RawSnapshot(b *accountant.AccountingBook) (accountant.VerifSnapshot, error) {
	var out accountant.VerifSnapshot
	var e error
	if err := GuardT(CallTimeout, func() error { out, e = b.VerifSnapshot(); return nil }); err != nil {
		wedge("VerifSnapshot")
	}
	return out, e
}

func IsPanic(err error) bool { return err != nil && strings.HasPrefix(err.Error(), "PANIC:") }

func NewWorld(cfg Config) (*World, error) {
	if cfg.Nodes < 1 {
		cfg.Nodes = 1
	}
	w := &World{Cfg: cfg, Arch: ref.NewArchive(), Epoch: time.Unix(1_700_000_000, 0)}
	mk := func(name string) *ref.Key { return ref.NewKey(name, []byte(cfg.Seed+"/"+name)) }
	w.Wallets = append(w.Wallets, mk("genesis-receiver"))
	for i := 0; i < cfg.Users; i++ {
		w.Wallets = append(w.Wallets, mk(fmt.Sprintf("user%d", i)))
	}
	for i := 0; i < cfg.Nodes; i++ {
		w.Wallets = append(w.Wallets, mk(fmt.Sprintf("node%d", i)))
	}
	for i := 0; i < 2; i++ {
		w.Wallets = append(w.Wallets, mk(fmt.Sprintf("rogue%d", i)))
	}
	for i := 0; i < cfg.Nodes; i++ {
		n, err := w.newNode(i, w.Wallets[w.NodeWallet(i)])
		if err != nil {
			return nil, err
		}
		w.Nodes = append(w.Nodes, n)
		w.Pool = append(w.Pool, map[Hash]struct{}{})
	}
	g, err := w.Nodes[0].Book.CreateGenesis("GENESIS", spice.New(cfg.GenesisC, cfg.GenesisS), []byte{}, w.Wallets[0].Addr)
	if err != nil {
		return nil, err
	}
	w.Genesis = g
	w.Arch.Add(&g)
	for i := 1; i < cfg.Nodes; i++ {
		if err := w.LoadGenesis(w.Nodes[i]); err != nil {
			return nil, err
		}
	}
	return w, nil
}

func (w *World) newNode(idx int, key *ref.Key) (*Node, error) {
	ctx, cancel := context.WithCancel(context.Background())
	l := NewLogger()
	b, err := accountant.NewAccountingBook(ctx, accountant.Config{Truncate: w.Cfg.Truncate}, wallet.NewVerifier(), key, l)
	if err != nil {
		cancel()
		return nil, err
	}
	return &Node{Idx: idx, Book: b, Key: key, Log: l, cancel: cancel}, nil
}

// LoadGenesis loads just the genesis vertex in to a fresh node, exactly as the repository's multi-node tests do.
func (w *World) LoadGenesis(n *Node) error {
	ch := make(chan *accountant.Vertex, 2)
	g := w.Genesis
	ch <- &g
	ch <- nil
	var cause error
	n.Book.LoadDag(func(e error) { cause = e }, ch)
	if cause != nil {
		return cause
	}
	if !n.Book.DagLoaded() {
		return errors.New("genesis not loaded")
	}
	return nil
}

// NewDetachedNode creates an extra empty node (for sync checks); it is closed with the world.
func (w *World) NewDetachedNode(name string) (*Node, error) {
	n, err := w.newNode(len(w.Nodes)+100, ref.NewKey(name, []byte(w.Cfg.Seed+"/"+name)))
	if err != nil {
		return nil, err
	}
	w.mu.Lock()
	w.extra = append(w.extra, n)
	w.mu.Unlock()
	return n, nil
}

// Close releases the books.
func (w *World) Close() {
	if w.Closed {
		return
	}
	w.Closed = true
	for _, n := range append(append([]*Node{}, w.Nodes...), w.extra...) {
		n.cancel()
		b := n.Book
		func() {
			defer func() { recover() }()
			b.VerifClose()
		}()
	}
}

func (w *World) tick() time.Time {
	w.mu.Lock()
	w.clock++
	c := w.clock
	w.mu.Unlock()
	return w.Epoch.Add(time.Duration(c) * time.Millisecond)
}

// DataBytes gives deterministic payload bytes.
func DataBytes(n int, salt int64) []byte {
	if n <= 0 {
		return []byte{}
	}
	out := make([]byte, 0, n+32)
	var ctr byte
	for len(out) < n {
		s := sha256.Sum256([]byte(fmt.Sprintf("data/%d/%d", salt, ctr)))
		out = append(out, s[:]...)
		ctr++
	}
	return out[:n]
}

// MakeTx creates a signed transaction from wallet `from` to wallet `to`.
func (w *World) MakeTx(from, to int, amt spice.Melange, dataLen int) transaction.Transaction {
	ts := w.tick()
	return ref.MakeTx(fmt.Sprintf("tx %d", ts.UnixNano()), amt, DataBytes(dataLen, ts.UnixNano()), w.Wallets[to].Addr, w.Wallets[from], ts)
}

// ---------- snapshots ----------

func (w *World) Snapshot(n *Node) (*Snap, error) {
	var raw accountant.VerifSnapshot
	var parked []accountant.VerifParked
	err := guard(func() error {
		var e error
		raw, e = n.Book.VerifSnapshot()
		parked = n.Book.VerifParkedList()
		return e
	})
	if err != nil {
		return nil, err
	}
	s := MakeSnap(raw, parked)
	for _, v := range s.Live {
		w.archAdd(v)
	}
	for _, v := range s.Stored {
		w.archAdd(v)
	}
	return s, nil
}

func (w *World) archAdd(v *accountant.Vertex) {
	w.mu.Lock()
	w.Arch.Add(v)
	w.mu.Unlock()
}

// ---------- operations ----------

type Op struct {
	K      string `json:"k"`
	N      int    `json:"n,omitempty"`
	From   int    `json:"from,omitempty"`
	To     int    `json:"to,omitempty"`
	C      uint64 `json:"c,string,omitempty"`
	S      uint64 `json:"s,string,omitempty"`
	Data   int    `json:"data,omitempty"`
	Sealer int    `json:"sealer,omitempty"`
	L      int    `json:"l,omitempty"` // index in Arch.Order
	R      int    `json:"r,omitempty"`
	W      uint64 `json:"w,omitempty"`
	V      int    `json:"v,omitempty"` // vertex index in Arch.Order
	Cnt    int    `json:"cnt,omitempty"`
	Addr   int    `json:"addr,omitempty"`
	Sub    []Op   `json:"sub,omitempty"`
	Note   string `json:"note,omitempty"`
	// Counter: the transaction of a propose/craft also carries the receiver's signature (a confirmed contract)
	Counter bool `json:"counter,omitempty"`
}

type Result struct {
	Err     error
	Vertex  *accountant.Vertex
	Balance spice.Melange
	Sub     []Result
	Tx      *transaction.Transaction
}

func (r Result) ErrString() string {
	if r.Err == nil {
		return ""
	}
	return r.Err.Error()
}

func (w *World) logOp(op Op) {
	w.mu.Lock()
	w.Ops = append(w.Ops, op)
	w.mu.Unlock()
}

func (w *World) offerToOthers(h Hash, except int) {
	w.mu.Lock()
	for i := range w.Pool {
		if i != except {
			w.Pool[i][h] = struct{}{}
		}
	}
	w.mu.Unlock()
}

// ProposeTx submits a ready transaction at a node (CreateLeaf).
func (w *World) ProposeTx(n int, tx transaction.Transaction) Result {
	var v accountant.Vertex
	err := guard(func() error {
		var e error
		v, e = w.Nodes[n].Book.CreateLeaf(context.Background(), &tx)
		return e
	})
	res := Result{Err: err, Tx: &tx}
	if err == nil {
		w.archAdd(&v)
		res.Vertex = &v
		w.offerToOthers(v.Hash, n)
	}
	return res
}

// DeliverVertex offers a vertex to a node (AddLeaf) with a private copy, as the wire would.
func (w *World) DeliverVertex(n int, v *accountant.Vertex) Result {
	c := CloneVertex(v)
	err := guard(func() error { return w.Nodes[n].Book.AddLeaf(context.Background(), &c) })
	w.mu.Lock()
	delete(w.Pool[n], v.Hash)
	w.mu.Unlock()
	return Result{Err: err, Vertex: v}
}

// TamperKinds names the mutations of TamperVertex.
var TamperKinds = []string{"weight+1", "weight+128", "created+1ns", "hash-bit", "signature-bit", "signer-swapped", "left-parent-bit", "parents-swapped-or-right-bit"}

// TamperVertex changes one field covered by the sealing digest (or the digest / signature itself) without re-sealing.
func TamperVertex(c *accountant.Vertex, kind int, otherAddr string) {
	switch kind % len(TamperKinds) {
	case 0:
		c.Weight++
	case 1:
		c.Weight += 128
	case 2:
		c.CreatedAt = c.CreatedAt.Add(time.Nanosecond)
	case 3:
		c.Hash[5] ^= 0x10
	case 4:
		if len(c.Signature) > 9 {
			c.Signature[9] ^= 0x04
		}
	case 5:
		if c.SignerPublicAddress == otherAddr {
			c.SignerPublicAddress = otherAddr[:len(otherAddr)-1]
		} else {
			c.SignerPublicAddress = otherAddr
		}
	case 6:
		c.LeftParentHash[0] ^= 0x01
	case 7:
		if c.LeftParentHash != c.RightParentHash {
			c.LeftParentHash, c.RightParentHash = c.RightParentHash, c.LeftParentHash
		} else {
			c.RightParentHash[31] ^= 0x80
		}
	}
}

func CloneVertex(v *accountant.Vertex) accountant.Vertex {
	c := *v
	c.Signature = append([]byte(nil), v.Signature...)
	c.Transaction.Data = append([]byte(nil), v.Transaction.Data...)
	c.Transaction.IssuerSignature = append([]byte(nil), v.Transaction.IssuerSignature...)
	c.Transaction.ReceiverSignature = append([]byte(nil), v.Transaction.ReceiverSignature...)
	return c
}

// Craft seals a transaction with any wallet on any parents. The vertex goes to the archive and every pool.
func (w *World) Craft(sealer int, tx transaction.Transaction, left, right Hash, weight uint64) *accountant.Vertex {
	if weight == 0 {
		var lw, rw uint64
		if v := w.Arch.V[left]; v != nil {
			lw = v.Weight
		}
		if v := w.Arch.V[right]; v != nil {
			rw = v.Weight
		}
		weight = max(lw, rw) + 1
	}
	v := ref.Seal(tx, left, right, weight, w.tick(), w.Wallets[sealer])
	w.archAdd(&v)
	w.offerToOthers(v.Hash, -1)
	return &v
}

func (w *World) Retry(n int) (Hash, error, bool) {
	var h Hash
	var ok bool
	var inner error
	err := guard(func() error {
		h, inner, ok = w.Nodes[n].Book.VerifRetryOne(context.Background())
		return nil
	})
	if err != nil {
		return h, err, true
	}
	return h, inner, ok
}

func (w *World) Truncate(n int) error {
	return guard(func() error { return w.Nodes[n].Book.VerifTruncate(context.Background()) })
}

func (w *World) Balance(n int, addr string) (spice.Melange, error) {
	var b accountant.Balance
	err := guard(func() error {
		var e error
		b, e = w.Nodes[n].Book.CalculateBalance(context.Background(), addr)
		return e
	})
	return b.Spice, err
}

// Filler grows the DAG at node n by cnt data-only vertices (admitted without an ancestor walk) and, if
// deliver is set, gives each to every other node straight away so all nodes stay identical.
func (w *World) Filler(n, cnt int, deliver bool) error {
	done, fails := 0, 0
	for i := 0; done < cnt; i++ {
		tx := w.MakeTx(1+(i%max(1, w.Cfg.Users)), 0, spice.Melange{}, 8)
		r := w.ProposeTx(n, tx)
		if r.Err != nil {
			// a proposal legitimately fails while it drops invalid tentative tips; keep going
			fails++
			if fails > 40 || errors.Is(r.Err, ErrStuck) || IsPanic(r.Err) {
				return fmt.Errorf("filler %d: %w", i, r.Err)
			}
			continue
		}
		done++
		if deliver {
			for j := range w.Nodes {
				if j != n {
					if d := w.DeliverVertex(j, r.Vertex); d.Err != nil {
						return fmt.Errorf("filler %d deliver to %d: %w", i, j, d.Err)
					}
				}
			}
		}
	}
	return nil
}

// Apply executes one logged operation (used by generators and by replay).
func (w *World) Apply(op Op) Result {
	w.logOp(op)
	return w.apply(op)
}

func (w *World) apply(op Op) Result {
	switch op.K {
	case "propose":
		tx := w.MakeTx(op.From, op.To, spice.Melange{Currency: op.C, SupplementaryCurrency: op.S}, op.Data)
		if op.Counter {
			ref.CounterSign(&tx, w.Wallets[op.To])
		}
		return w.ProposeTx(op.N, tx)
	case "tamper": // a copy of archived vertex V with one sealed field changed (kind Cnt) and NOT re-sealed, offered to node N
		src := w.Arch.V[w.orderHash(op.V)]
		if src == nil {
			return Result{Err: errors.New("sim: no such vertex")}
		}
		c := CloneVertex(src)
		TamperVertex(&c, op.Cnt, w.Wallets[w.RogueWallet(0)].Addr)
		err := guard(func() error { return w.Nodes[op.N].Book.AddLeaf(context.Background(), &c) })
		return Result{Err: err}
	case "craft":
		tx := w.MakeTx(op.From, op.To, spice.Melange{Currency: op.C, SupplementaryCurrency: op.S}, op.Data)
		if op.Counter {
			ref.CounterSign(&tx, w.Wallets[op.To])
		}
		l, r := w.orderHash(op.L), w.orderHash(op.R)
		v := w.Craft(op.Sealer, tx, l, r, op.W)
		return Result{Vertex: v, Tx: &tx}
	case "deliver":
		h := w.orderHash(op.V)
		v := w.Arch.V[h]
		if v == nil {
			return Result{Err: errors.New("sim: no such vertex")}
		}
		return w.DeliverVertex(op.N, v)
	case "deliverAll":
		return Result{Err: w.DeliverAll(op.N)}
	case "retry":
		_, err, _ := w.Retry(op.N)
		return Result{Err: err}
	case "truncate":
		return Result{Err: w.Truncate(op.N)}
	case "filler":
		return Result{Err: w.Filler(op.N, op.Cnt, op.V == 1)}
	case "trust":
		return Result{Err: w.Nodes[op.N].Book.AddTrustedNode(w.Wallets[op.Sealer].Addr)}
	case "untrust":
		return Result{Err: w.Nodes[op.N].Book.RemoveTrustedNode(w.Wallets[op.Sealer].Addr)}
	case "balance":
		b, err := w.Balance(op.N, w.AddrOf(op))
		return Result{Err: err, Balance: b}
	case "repropose": // the transaction of an archived vertex proposed again
		v := w.Arch.V[w.orderHash(op.V)]
		if v == nil {
			return Result{Err: errors.New("sim: no such vertex")}
		}
		return w.ProposeTx(op.N, v.Transaction)
	case "craft-dup": // the transaction of an archived vertex sealed again by another wallet on parent L
		v := w.Arch.V[w.orderHash(op.V)]
		if v == nil {
			return Result{Err: errors.New("sim: no such vertex")}
		}
		p := w.orderHash(op.L)
		return Result{Vertex: w.Craft(op.Sealer, v.Transaction, p, p, 0)}
	case "craft-parent": // an ordinary data vertex on parent L (used as a withheld parent)
		p := w.orderHash(op.L)
		tx := w.MakeTx(0, 1, spice.Melange{}, 8)
		return Result{Vertex: w.Craft(w.RogueWallet(1), tx, p, p, 0), Tx: &tx}
	case "batch":
		res := make([]Result, len(op.Sub))
		var wg sync.WaitGroup
		for i := range op.Sub {
			wg.Add(1)
			go func(i int) {
				defer wg.Done()
				res[i] = w.apply(op.Sub[i])
			}(i)
		}
		wg.Wait()
		return Result{Sub: res}
	}
	return Result{Err: fmt.Errorf("sim: unknown op %q", op.K)}
}

// AddrOf resolves the address a balance op asks about: Note "absent" / "genesis-issuer" or wallet index Addr.
func (w *World) AddrOf(op Op) string {
	switch op.Note {
	case "absent":
		return ref.NewKey("absent", []byte("absent")).Addr
	case "genesis-issuer":
		return w.Genesis.Transaction.IssuerAddress
	}
	if op.Addr >= 0 && op.Addr < len(w.Wallets) {
		return w.Wallets[op.Addr].Addr
	}
	return ""
}

func (w *World) orderHash(i int) Hash {
	w.mu.Lock()
	defer w.mu.Unlock()
	if i < 0 || i >= len(w.Arch.Order) {
		return Hash{}
	}
	return w.Arch.Order[i]
}

// OrderIndex finds the archive index of a hash (-1 if unknown).
func (w *World) OrderIndex(h Hash) int {
	w.mu.Lock()
	defer w.mu.Unlock()
	for i := len(w.Arch.Order) - 1; i >= 0; i-- {
		if w.Arch.Order[i] == h {
			return i
		}
	}
	return -1
}

// DeliverAll offers every pooled vertex to node n parents-first (by archive order) until the pool is empty.
func (w *World) DeliverAll(n int) error {
	w.mu.Lock()
	var hs []Hash
	for _, h := range w.Arch.Order {
		if _, ok := w.Pool[n][h]; ok {
			hs = append(hs, h)
		}
	}
	w.mu.Unlock()
	var firstErr error
	for _, h := range hs {
		r := w.DeliverVertex(n, w.Arch.V[h])
		if r.Err != nil && firstErr == nil && (errors.Is(r.Err, ErrStuck) || IsPanic(r.Err)) {
			firstErr = r.Err
		}
	}
	return firstErr
}

// PoolSize is the number of vertices not yet offered to node n.
func (w *World) PoolSize(n int) int {
	w.mu.Lock()
	defer w.mu.Unlock()
	return len(w.Pool[n])
}

// PoolList lists pooled vertices of node n in archive order.
func (w *World) PoolList(n int) []Hash {
	w.mu.Lock()
	defer w.mu.Unlock()
	var hs []Hash
	for _, h := range w.Arch.Order {
		if _, ok := w.Pool[n][h]; ok {
			hs = append(hs, h)
		}
	}
	return hs
}

// Chdir moves the process to dir so that truncation backups (written to cwd by the code) land there.
func Chdir(dir string) { os.Chdir(dir) }

// HashesEqual is a small helper.
func HashesEqual(a, b Hash) bool { return bytes.Equal(a[:], b[:]) }
