package checks

import (
	"errors"
	"fmt"
	"testing"
	"time"

	"github.com/bartossh/Computantis/src/accountant"
	"github.com/bartossh/Computantis/src/spice"
	"pgregory.net/rapid"

	"verif/harness/ref"
	"verif/harness/sim"
)

// C13 — vertices arriving before their parents are parked and later admitted.

type c13SegOp struct {
	K    string `json:"k"` // p = proposal at the source, c = rogue-sealed on two chosen parents
	L    int    `json:"l"` // parent choice (index back from the newest known vertex)
	R    int    `json:"r"`
	Amt  int    `json:"amt"`  // units; 0 = data only
	Data int    `json:"data"` // bytes
}

type c13Step struct {
	K string `json:"k"` // d = deliver V[I], r = retry one, p = local proposal on the target, x = invalid vertex kind I
	I int    `json:"i"`
}

type c13Case struct {
	Base  int        `json:"base"` // shared vertices before the segment
	Seg   []c13SegOp `json:"seg"`
	Steps []c13Step  `json:"steps"`
}

type c13World struct {
	w    *sim.World
	base []ref.Hash
	V    []*accountant.Vertex
}

// c13Build makes the source ledger, the segment V, and feeds the reference node parents-first.
func c13Build(c c13Case, seed string) (*c13World, error) {
	w, err := sim.NewWorld(sim.Config{Nodes: 2, Users: 3, GenesisC: 100000, Seed: seed})
	if err != nil {
		return nil, err
	}
	cw := &c13World{w: w}
	for i := 0; i < c.Base; i++ {
		r := w.ProposeTx(0, w.MakeTx(0, 1+i%3, spice.New(1, 0), 0))
		if r.Err != nil {
			return cw, fmt.Errorf("base: %w", r.Err)
		}
		if d := w.DeliverVertex(1, r.Vertex); d.Err != nil {
			return cw, fmt.Errorf("base to reference: %w", d.Err)
		}
		cw.base = append(cw.base, r.Vertex.Hash)
	}
	known := append([]ref.Hash{w.Genesis.Hash}, cw.base...)
	for i, op := range c.Seg {
		var v *accountant.Vertex
		amt := spice.Melange{}
		if op.Amt > 0 {
			amt = spice.New(uint64(op.Amt), 0)
		}
		data := op.Data
		if op.Amt == 0 && data == 0 {
			data = 4
		}
		tx := w.MakeTx(0, 1+i%3, amt, data)
		if op.K == "c" {
			l := known[len(known)-1-op.L%min(len(known), 6)]
			r := known[len(known)-1-op.R%min(len(known), 6)]
			v = w.Craft(w.RogueWallet(i%2), tx, l, r, 0)
			if d := w.DeliverVertex(0, v); d.Err != nil {
				continue // not admissible at the source: not part of the valid history
			}
		} else {
			r := w.ProposeTx(0, tx)
			if r.Err != nil {
				continue
			}
			v = r.Vertex
		}
		known = append(known, v.Hash)
		cw.V = append(cw.V, v)
	}
	// premise: V is a valid history - the reference node accepts it parents-first
	for _, v := range cw.V {
		if d := w.DeliverVertex(1, v); d.Err != nil {
			return cw, fmt.Errorf("premise: reference node rejected %x parents-first: %w", v.Hash[:4], d.Err)
		}
	}
	return cw, nil
}

func c13Target(cw *c13World, name string) (*sim.Node, error) {
	n, err := cw.w.NewDetachedNode(name)
	if err != nil {
		return nil, err
	}
	if err := cw.w.LoadGenesis(n); err != nil {
		return nil, err
	}
	for _, h := range cw.base {
		c := sim.CloneVertex(cw.w.Arch.V[h])
		if err := n.Book.AddLeaf(bg, &c); err != nil {
			return nil, fmt.Errorf("base to target: %w", err)
		}
	}
	return n, nil
}

// c13Run plays the schedule on a fresh target. Returns violation, whether a child came before its parent, and an
// inconclusive reason.
func c13Run(cw *c13World, c c13Case, name string) (sig, msg string, nontrivial bool, inconclusive string) {
	w := cw.w
	started := time.Now() // the node's own 2 s retry ticker starts with the node
	tgt, err := c13Target(cw, name)
	if err != nil {
		return "", "", false, "target: " + err.Error()
	}
	book := tgt.Book
	// retries the harness triggered per parked vertex (the head of the parked list is what a trigger pops)
	myRetry := map[ref.Hash]int{}
	retryOne := func() error {
		if pl := sim.ParkedList(book); len(pl) > 0 {
			myRetry[pl[0].Hash]++
		}
		return sim.GuardT(sim.CallTimeout, func() error { book.VerifRetryOne(bg); return nil })
	}
	inV := map[ref.Hash]bool{}
	for _, v := range cw.V {
		inV[v.Hash] = true
	}
	have := func() map[ref.Hash]bool {
		s, err := sim.RawSnapshot(book)
		m := map[ref.Hash]bool{}
		if err != nil {
			return m
		}
		for i := range s.Live {
			m[s.Live[i].Hash] = true
		}
		return m
	}
	delivered := map[ref.Hash]bool{}
	var invalid []ref.Hash
	var forever []ref.Hash
	localN := 0
	for si, st := range c.Steps {
		switch st.K {
		case "d":
			if len(cw.V) == 0 {
				continue
			}
			v := cw.V[st.I%len(cw.V)]
			present := have()
			missing := false
			for _, p := range ref.Parents(v) {
				if !present[p] {
					missing = true
				}
			}
			cp := sim.CloneVertex(v)
			var aerr error
			if g := sim.GuardT(sim.CallTimeout, func() error { aerr = book.AddLeaf(bg, &cp); return nil }); g != nil {
				return "", "", nontrivial, "AddLeaf: " + g.Error()
			}
			delivered[v.Hash] = true
			switch {
			case present[v.Hash]:
				if aerr == nil {
					return "duplicate-admitted", fmt.Sprintf("step %d: vertex %x already in the ledger was accepted again", si, v.Hash[:4]), nontrivial, ""
				}
			case missing:
				nontrivial = true
				if !errors.Is(aerr, accountant.ErrParentDoesNotExists) {
					return "missing-parent-not-reported", fmt.Sprintf("step %d: vertex %x delivered before its parent returned %v instead of the parent-missing error", si, v.Hash[:4], aerr), nontrivial, ""
				}
				parked := false
				for try := 0; try < 4 && !parked; try++ {
					for _, p := range sim.ParkedList(book) {
						if p.Hash == v.Hash {
							parked = true
						}
					}
					if !parked && have()[v.Hash] {
						parked = true // popped and admitted by the node's own ticker in the meantime
					}
					if !parked {
						time.Sleep(3 * time.Millisecond) // popped by the ticker and not yet re-parked
					}
				}
				if !parked {
					return "orphan-not-parked", fmt.Sprintf("step %d: vertex %x delivered before its parent is not in the orphan buffer", si, v.Hash[:4]), nontrivial, ""
				}
			default:
				if aerr != nil && have()[v.Hash] {
					// the node's own 2 s retry ticker admitted a parked copy of this very vertex while the direct delivery was
					// under way: the delivery is rightly refused as a duplicate
					aerr = nil
				}
				if aerr != nil {
					return "valid-vertex-rejected", fmt.Sprintf("step %d: vertex %x whose parents are present was rejected: %v", si, v.Hash[:4], aerr), nontrivial, ""
				}
			}
		case "r":
			pl := sim.ParkedList(book)
			if len(pl) == 0 || pl[0].Repeated >= 24 {
				continue // stay inside the promised bounds
			}
			if g := retryOne(); g != nil {
				return "", "", nontrivial, "retry: " + g.Error()
			}
		case "p":
			localN++
			tx := w.MakeTx(1+localN%3, 0, spice.Melange{}, 6)
			var perr error
			if g := sim.GuardT(sim.CallTimeout, func() error { _, perr = book.CreateLeaf(bg, &tx); return nil }); g != nil {
				return "", "", nontrivial, "CreateLeaf: " + g.Error()
			}
			_ = perr
		case "x":
			tips := have()
			var tip ref.Hash
			for _, h := range append([]ref.Hash{w.Genesis.Hash}, cw.base...) {
				if tips[h] {
					tip = h
				}
			}
			for _, v := range cw.V {
				if tips[v.Hash] {
					tip = v.Hash // prefer the newest delivered vertex of the segment
				}
			}
			switch st.I % 4 {
			case 3: // an overdrawing parent and its child, child first: the retry path must judge the parent like the direct path
				if tip == (ref.Hash{}) {
					continue
				}
				ptx := w.MakeTx(3, 1, spice.New(5000000, 0), 0) // user2 never holds that much
				tw := uint64(0)
				if tv := w.Arch.V[tip]; tv != nil {
					tw = tv.Weight // ordinary weights: a heavy vertex would move the node-local weight window
				}
				pv := ref.Seal(ptx, tip, tip, tw+1, ptx.CreatedAt, w.Wallets[w.RogueWallet(0)])
				ctx2 := w.MakeTx(1, 2, spice.New(1, 0), 0)
				cv := ref.Seal(ctx2, pv.Hash, pv.Hash, tw+2, ctx2.CreatedAt, w.Wallets[w.RogueWallet(1)])
				invalid = append(invalid, pv.Hash, cv.Hash)
				c1 := sim.CloneVertex(&cv)
				if aerr := book.AddLeaf(bg, &c1); !errors.Is(aerr, accountant.ErrParentDoesNotExists) {
					return "missing-parent-not-reported", fmt.Sprintf("step %d: child of an undelivered parent returned %v", si, aerr), nontrivial, ""
				}
				nontrivial = true
				p1 := sim.CloneVertex(&pv)
				book.AddLeaf(bg, &p1) // accepted as a tentative tip: it is validated when something builds on it
				for k := 0; k < 4 && len(sim.ParkedList(book)) > 0; k++ {
					if g := retryOne(); g != nil {
						return "", "", nontrivial, "retry: " + g.Error()
					}
				}
			case 0: // bad sealing signature on a real vertex of V
				if len(cw.V) == 0 {
					continue
				}
				cp := sim.CloneVertex(cw.V[si%len(cw.V)])
				cp.Signature[3] ^= 0x40
				if book.AddLeaf(bg, &cp) == nil {
					return "invalid-admitted", fmt.Sprintf("step %d: vertex with a corrupted sealing signature was accepted", si), nontrivial, ""
				}
			case 1: // genesis wallet as issuer
				tx := w.MakeTx(w.NodeWallet(0), 1, spice.New(1, 0), 0)
				v := ref.Seal(tx, tip, tip, 60, tx.CreatedAt, w.Wallets[w.RogueWallet(0)])
				invalid = append(invalid, v.Hash)
				if book.AddLeaf(bg, &v) == nil {
					return "invalid-admitted", fmt.Sprintf("step %d: vertex issued by the genesis wallet was accepted", si), nontrivial, ""
				}
			case 2: // parent that never arrives
				tx := w.MakeTx(0, 1, spice.Melange{}, 5)
				ghost := ref.Hash{0x99, byte(si), 0x77}
				v := ref.Seal(tx, ghost, ghost, 60, tx.CreatedAt, w.Wallets[w.RogueWallet(1)])
				forever = append(forever, v.Hash)
				aerr := book.AddLeaf(bg, &v)
				if !errors.Is(aerr, accountant.ErrParentDoesNotExists) {
					return "missing-parent-not-reported", fmt.Sprintf("step %d: vertex with an unknown parent returned %v", si, aerr), nontrivial, ""
				}
			}
		}
	}
	// deliver whatever of V was never delivered (the property is about the whole set reaching the node) - parents first,
	// so that the promised retry bound (25 per vertex) is not consumed by the harness's own final phase
	for i := 0; i < len(cw.V); i++ {
		if !delivered[cw.V[i].Hash] {
			cp := sim.CloneVertex(cw.V[i])
			book.AddLeaf(bg, &cp)
		}
	}
	// retries until the buffer is empty (each parked vertex needs at most |V| rounds; ghosts leave after 25)
	for k := 0; k < 40*(len(cw.V)+len(forever)+2); k++ {
		if len(sim.ParkedList(book)) == 0 {
			break
		}
		if g := retryOne(); g != nil {
			return "", "", nontrivial, "retry: " + g.Error()
		}
	}
	raw, err := sim.RawSnapshot(book)
	if err != nil {
		return "", "", nontrivial, "snapshot: " + err.Error()
	}
	s := sim.MakeSnap(raw, sim.ParkedList(book))
	if len(s.Parked) != 0 {
		return "buffer-not-drained", fmt.Sprintf("%d vertices are still parked after all parents arrived and %d retries", len(s.Parked), 40*(len(cw.V)+len(forever)+2)), nontrivial, ""
	}
	for _, v := range cw.V {
		got, ok := s.Live[v.Hash]
		if !ok {
			// The node may drop a parked vertex after 25 retries. Retries come from the harness (counted per vertex) and from
			// the node's own ticker (one pop every 2 s of wall clock, which on a loaded machine is many per case): when the
			// two together may have reached the bound for this vertex, its loss is within the node's rights.
			ticks := int(time.Since(started)/(2*time.Second)) + 1
			if myRetry[v.Hash]+ticks+2 >= 25 {
				return "", "", nontrivial, fmt.Sprintf("vertex %x is missing, but it may have used up its 25 retries (%d by the harness, up to %d by the node's ticker)", v.Hash[:4], myRetry[v.Hash], ticks)
			}
			return "vertex-lost", fmt.Sprintf("vertex %x of the valid history never made it into the ledger although every parent arrived (parents-first delivery admits it)", v.Hash[:4]), nontrivial, ""
		}
		want := map[string]struct{}{}
		for _, p := range ref.Parents(v) {
			want[string(p[:])] = struct{}{}
		}
		edges := s.EdgeInto[string(v.Hash[:])]
		if len(edges) != len(want) {
			return "edges-differ", fmt.Sprintf("vertex %x has %d inbound edges, parents-first delivery gives %d", v.Hash[:4], len(edges), len(want)), nontrivial, ""
		}
		for p := range want {
			if _, ok := edges[p]; !ok {
				return "edges-differ", fmt.Sprintf("vertex %x lacks the edge from declared parent %x", v.Hash[:4], p[:4]), nontrivial, ""
			}
		}
		if d := vrxDiff(v, got); d != "" {
			return "vertex-altered", fmt.Sprintf("vertex %x differs in %s", v.Hash[:4], d), nontrivial, ""
		}
	}
	seenTx := map[ref.Hash]ref.Hash{}
	for h, v := range s.Live {
		if o, dup := seenTx[v.Transaction.Hash]; dup {
			return "admitted-twice", fmt.Sprintf("transaction %x is in two vertices %x and %x", v.Transaction.Hash[:4], o[:4], h[:4]), nontrivial, ""
		}
		seenTx[v.Transaction.Hash] = h
	}
	if len(raw.Live) != len(s.Live) {
		return "admitted-twice", "a vertex hash occurs twice in the ledger", nontrivial, ""
	}
	// "exactly the ledger it would have had": the transaction index is part of it - every admitted vertex's transaction
	// resolves to that vertex (a parked copy retried after another copy was admitted must not undo that)
	for h, v := range s.Live {
		tgt, ok := raw.Index[v.Transaction.Hash]
		if !ok {
			return "index-entry-lost", fmt.Sprintf("vertex %x is in the ledger but its transaction %x has no index entry (parents-first delivery leaves one)", h[:4], v.Transaction.Hash[:4]), nontrivial, ""
		}
		if string(tgt) != string(h[:]) {
			return "index-entry-wrong", fmt.Sprintf("the index entry of transaction %x points at %x, the transaction is in vertex %x", v.Transaction.Hash[:4], tgt, h[:4]), nontrivial, ""
		}
	}
	for _, h := range append(invalid, forever...) {
		if _, ok := s.Live[h]; ok {
			return "invalid-admitted", fmt.Sprintf("invalid / unreachable vertex %x ended up in the ledger", h[:4]), nontrivial, ""
		}
	}
	if tgt.Log.FatalCount() > 0 {
		return "log-fatal", fmt.Sprintf("target logged Fatal: %v", tgt.Log.Fatals), nontrivial, ""
	}
	return "", "", nontrivial, ""
}

func permutations(n int) [][]int {
	var out [][]int
	a := make([]int, n)
	for i := range a {
		a[i] = i
	}
	var rec func(k int)
	rec = func(k int) {
		if k == n {
			out = append(out, append([]int(nil), a...))
			return
		}
		for i := k; i < n; i++ {
			a[k], a[i] = a[i], a[k]
			rec(k + 1)
			a[k], a[i] = a[i], a[k]
		}
	}
	rec(0)
	return out
}

var c13Shapes = map[string][]c13SegOp{
	"chain":   {{K: "p", Amt: 1}, {K: "p", Data: 8}, {K: "p", Amt: 2}, {K: "p", Amt: 1}, {K: "p", Data: 3}},
	"diamond": {{K: "p", Amt: 1}, {K: "c", L: 0, R: 0, Amt: 1}, {K: "c", L: 1, R: 1, Data: 9}, {K: "p", Amt: 1}, {K: "p", Amt: 3}},
	"deep2":   {{K: "c", L: 0, R: 1, Data: 5}, {K: "c", L: 0, R: 2, Amt: 2}, {K: "p", Amt: 1}, {K: "c", L: 0, R: 3, Data: 2}, {K: "p", Data: 7}},
}

func TestC13(t *testing.T) {
	st := newStats(t, "C13", "cases = a valid segment V (2-20 vertices: proposals merging tips, rogue-sealed vertices on two chosen parents, spice and data) built at a source node and confirmed valid by a reference node fed parents-first; a fresh target receives a schedule of deliveries of V in a drawn order with duplicates, retry steps (bounded: <25 per vertex), local proposals and invalid vertices (corrupted signature, genesis issuer, parent that never arrives); oracle = missing parent reported and parked, final ledger contains every vertex of V with exactly its declared edges and signed fields, nothing twice, buffer empty, no invalid vertex; non-trivial = at least one child was delivered before a parent; enumerated permutations distinct by construction, random schedules by fingerprint")
	sim.Chdir(workDir(t))
	sh, n := shard(), nshards()
	t.Run("retry-bound", func(t *testing.T) {
		if sh%4 == 0 && c13RetryBound(st) {
			t.Errorf("C13: retry bound")
		}
	})
	t.Run("enum", func(t *testing.T) {
		failed := false
		k := scale(4, 5)
		idx := 0
		for name, shape := range c13Shapes {
			cs := c13Case{Base: 2, Seg: shape[:k]}
			cw, err := c13Build(cs, "c13-enum-"+name)
			if err != nil {
				st.note("enum build %s: %v", name, err)
				st.inconclusive("enum build failed: " + err.Error())
				continue
			}
			if len(cw.V) != k {
				st.note("enum shape %s produced %d of %d vertices", name, len(cw.V), k)
			}
			for pi, perm := range permutations(len(cw.V)) {
				idx++
				if idx%n != sh {
					continue
				}
				c := cs
				for _, i := range perm {
					c.Steps = append(c.Steps, c13Step{K: "d", I: i})
				}
				sig, msg, nt, inc := c13Run(cw, c, fmt.Sprintf("t-%s-%d", name, pi))
				st.eval(1)
				if inc != "" {
					st.note("inconclusive: %s", inc)
					st.label("inconclusive-case")
					continue
				}
				if nt {
					st.enumNontrivial(1)
				}
				if sig != "" && st.reportOnce(sig, msg, map[string]any{"shape": name, "case": c}) {
					failed = true
				}
			}
			cw.w.Close()
		}
		st.Exhaustive = true
		st.sample(map[string]any{"shape": "diamond", "order": []int{3, 1, 0, 2}})
		if failed {
			t.Errorf("C13: violations in permutation enumeration")
		}
	})
	t.Run("random", func(t *testing.T) {
		caseNo := 0
		rapid.Check(t, func(rt *rapid.T) {
			if outOfBudget(st) {
				return
			}
			worldsMade++
			caseNo++
			c := c13Case{Base: rapid.IntRange(0, 4).Draw(rt, "base")}
			nseg := rapid.IntRange(2, 20).Draw(rt, "nseg")
			for i := 0; i < nseg; i++ {
				op := c13SegOp{K: rapid.SampledFrom([]string{"p", "p", "p", "c", "c"}).Draw(rt, "k")}
				op.L = rapid.IntRange(0, 5).Draw(rt, "l")
				op.R = rapid.IntRange(0, 5).Draw(rt, "r")
				if rapid.Bool().Draw(rt, "spice") {
					op.Amt = rapid.IntRange(1, 5).Draw(rt, "amt")
				} else {
					op.Data = rapid.IntRange(1, 40).Draw(rt, "data")
				}
				c.Seg = append(c.Seg, op)
			}
			nsteps := rapid.IntRange(nseg, nseg*3).Draw(rt, "nsteps")
			for i := 0; i < nsteps; i++ {
				k := rapid.SampledFrom([]string{"d", "d", "d", "d", "d", "r", "r", "p", "x"}).Draw(rt, "step")
				c.Steps = append(c.Steps, c13Step{K: k, I: rapid.IntRange(0, 40).Draw(rt, "i")})
			}
			cw, err := c13Build(c, fmt.Sprintf("c13-%d-%d", shard(), caseNo))
			if err != nil {
				if cw != nil {
					cw.w.Close()
				}
				st.label("discarded:premise-or-build")
				st.note("discarded: %v", err)
				rt.Skip("build/premise")
			}
			defer cw.w.Close()
			sig, msg, nt, inc := c13Run(cw, c, "target")
			st.eval(1)
			if inc != "" {
				st.label("inconclusive-case")
				st.note("inconclusive: %s", inc)
				return
			}
			if nt {
				st.nontrivial(fp64(fmt.Sprintf("%+v", c)))
				st.sample(c)
			}
			st.labelN("segment-vertices", int64(len(cw.V)))
			if sig != "" && st.report(sig, msg, map[string]any{"case": c}) {
				rt.Fatalf("C13 violated (%s): %s", sig, msg)
			}
		})
	})
	t.Run("longlived", func(t *testing.T) {
		// one target node through many rounds of child-before-parent delivery (see c13_longlived_test.go)
		gen := rapid.Custom(func(rt *rapid.T) c13Long {
			var c c13Long
			nr := rapid.IntRange(3, 9).Draw(rt, "rounds")
			for i := 0; i < nr; i++ {
				r := c13Round{Shape: rapid.SampledFrom([]string{"fan", "fan", "chain", "rchain"}).Draw(rt, "shape")}
				switch r.Shape {
				case "fan":
					if rapid.IntRange(0, 5).Draw(rt, "bulk") == 0 {
						r.N = rapid.IntRange(400, 495).Draw(rt, "nBulk") // close to the 500 the buffer promises to hold
						r.Passes = rapid.IntRange(0, 2).Draw(rt, "passes")
					} else {
						r.N = rapid.IntRange(3, 120).Draw(rt, "n")
						r.Passes = rapid.IntRange(0, 8).Draw(rt, "passes")
					}
					r.Rot = rapid.IntRange(0, 50).Draw(rt, "rot")
				case "chain":
					r.N = rapid.IntRange(2, 60).Draw(rt, "n")
					r.Passes = rapid.IntRange(0, 8).Draw(rt, "passes")
				default:
					r.N = rapid.IntRange(2, 10).Draw(rt, "n")
					r.Passes = rapid.IntRange(0, 6).Draw(rt, "passes")
				}
				c.Rounds = append(c.Rounds, r)
			}
			return c
		})
		cases := scale(2, 6)
		for i := 0; i < cases; i++ {
			if outOfBudget(st) {
				break
			}
			worldsMade++
			c := gen.Example(envInt("VERIF_SEED", 1)*7919 + shard()*101 + i)
			sig, msg, ls, inc := c13LongRun(c, fmt.Sprintf("c13-long-%d-%d", shard(), i))
			st.eval(1)
			st.label("longlived:case")
			if inc != "" {
				st.label("inconclusive-case")
				st.note("inconclusive: %s", inc)
				continue
			}
			st.nontrivial(fp64(fmt.Sprintf("long %+v", c)))
			if i == 0 {
				st.sample(map[string]any{"longlived": c, "harness_retries": ls.pops, "max_parked": ls.maxParked})
			}
			st.labelN("longlived:children-admitted-after-parking", int64(ls.admitted))
			if ls.pops > 500 {
				st.label("longlived:node-did->500-retries-over-its-lifetime")
			}
			if ls.maxParked >= 400 {
				st.label("longlived:>=400-parked-at-once")
			}
			if sig != "" && st.reportOnce(sig, msg, map[string]any{"longlived": c}) {
				t.Errorf("C13 violated (%s): %s", sig, msg)
			}
		}
	})
}

func TestReplayC13(t *testing.T) {
	var wrap struct {
		Shape string   `json:"shape"`
		Case  c13Case  `json:"case"`
		Long  *c13Long `json:"longlived"`
	}
	loadReplay(t, &wrap)
	sim.Chdir(t.TempDir())
	if wrap.Long != nil {
		sig, msg, _, inc := c13LongRun(*wrap.Long, "c13-long-replay")
		if sig != "" {
			t.Fatalf("VIOLATION reproduced sig=%s: %s", sig, msg)
		}
		if inc != "" {
			t.Logf("inconclusive: %s", inc)
		}
		return
	}
	cw, err := c13Build(wrap.Case, "c13-replay")
	if err != nil {
		t.Skipf("build: %v", err)
	}
	defer cw.w.Close()
	sig, msg, _, inc := c13Run(cw, wrap.Case, "target")
	if sig != "" {
		t.Fatalf("VIOLATION reproduced sig=%s: %s", sig, msg)
	}
	if inc != "" {
		t.Logf("inconclusive: %s", inc)
	}
}
