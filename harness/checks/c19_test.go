package checks

import (
	"bytes"
	"fmt"
	"math"
	"testing"
	"time"
	"unicode/utf8"

	"github.com/bartossh/Computantis/src/accountant"
	"github.com/bartossh/Computantis/src/gossip"
	"github.com/bartossh/Computantis/src/protobufcompiled"
	"github.com/bartossh/Computantis/src/spice"
	"github.com/bartossh/Computantis/src/transaction"
	"github.com/bartossh/Computantis/src/transformers"
	"github.com/bartossh/Computantis/src/wallet"
	"google.golang.org/protobuf/proto"
	"pgregory.net/rapid"

	"verif/harness/ref"
)

// C19 — vertices and transactions survive every transcoding unchanged.

type c19Case struct {
	SubjectLen  int    `json:"subject_len"`
	SubjectKind string `json:"subject_kind"`
	DataLen     int    `json:"data_len"`
	DataKind    string `json:"data_kind"`
	DataNil     bool   `json:"data_nil"`
	Cur         uint64 `json:"cur,string"`
	Supp        uint64 `json:"supp,string"`
	Weight      uint64 `json:"weight,string"`
	TxNanos     int64  `json:"tx_nanos,string"`
	VxNanos     int64  `json:"vx_nanos,string"`
	Counter     bool   `json:"countersigned"`
	Signed      bool   `json:"validly_signed"`
	SigLen      int    `json:"sig_len"` // for unsigned variants
	AddrKind    string `json:"addr_kind"`
}

var c19Lens = []int{0, 1, 31, 32, 33, 255, 256, 65535, 65536}
var c19Ints = []uint64{0, 1, 127, 128, 255, 256, 65535, 65536, 1<<32 - 1, 1 << 32, 1<<63 - 1, 1 << 63, math.MaxUint64 - 1, math.MaxUint64}
var c19Nanos = []int64{0, 1, -1, 1_700_000_000_123_456_789, (1 << 32) * 1e9, (1<<32)*1e9 - 1, (1<<32)*1e9 + 1, (1 << 33) * 1e9, 999_999_999, 1_000_000_000,
	-1_000_000_000, -62135596800 * 1, math.MaxInt64, math.MaxInt64 - 1, math.MinInt64, math.MinInt64 + 1, -(1 << 32) * 1e9}

// 2^34 s does not fit int64 nanoseconds (2^34*1e9 > 2^63)? 2^34*1e9 = 1.7e19 > 9.2e18: out of the int64-nanosecond range, so the
// largest second boundaries inside the range are 2^32 and 2^33; MaxInt64 ns (~2^33.1 s) covers the top.

func fill(n int, kind string, salt byte) []byte {
	b := make([]byte, n)
	switch kind {
	case "zeros":
	case "ff":
		for i := range b {
			b[i] = 0xFF
		}
	case "ascii":
		for i := range b {
			b[i] = 'a' + byte((i+int(salt))%26)
		}
	case "nul":
		for i := range b {
			b[i] = 'x'
			if i%3 == 1 {
				b[i] = 0
			}
		}
	case "badutf8":
		for i := range b {
			b[i] = []byte{0xC3, 0x28, 0xA0, 0xA1, 0xE2, 0x82, 0xFF, 0xFE}[(i+int(salt))%8]
		}
	default: // random-ish
		x := uint32(salt)*2654435761 + 12345
		for i := range b {
			x = x*1664525 + 1013904223
			b[i] = byte(x >> 24)
		}
	}
	return b
}

var c19A, c19B, c19S = ref.NewKey("c19-issuer", []byte("a")), ref.NewKey("c19-receiver", []byte("b")), ref.NewKey("c19-sealer", []byte("s"))

func c19Build(c c19Case) accountant.Vertex {
	issuer, receiver := c19A.Addr, c19B.Addr
	switch c.AddrKind {
	case "empty":
		issuer = ""
	case "garbage":
		receiver = string(fill(33, "badutf8", 1))
	case "long":
		receiver = string(fill(256, "ascii", 2))
	}
	data := fill(c.DataLen, c.DataKind, 7)
	if c.DataNil && c.DataLen == 0 {
		data = nil
	}
	t := transaction.Transaction{
		CreatedAt:         time.Unix(0, c.TxNanos),
		IssuerAddress:     issuer,
		ReceiverAddress:   receiver,
		Subject:           string(fill(c.SubjectLen, c.SubjectKind, 3)),
		Data:              data,
		ReceiverSignature: []byte{},
		Spice:             spice.Melange{Currency: c.Cur, SupplementaryCurrency: c.Supp},
	}
	if c.Signed {
		t.Hash, t.IssuerSignature = c19A.Sign(ref.TxMessage(&t))
		if c.Counter {
			ref.CounterSign(&t, c19B)
		}
		return ref.Seal(t, ref.Hash{1, 2, 3}, ref.Hash{0xFF, 0xFE}, c.Weight, time.Unix(0, c.VxNanos), c19S)
	}
	t.Hash = ref.Hash{9, 9, 9, byte(c.SigLen)}
	t.IssuerSignature = fill(c.SigLen, "rand", 5)
	if c.Counter {
		t.ReceiverSignature = fill(c.SigLen, "ff", 6)
	}
	return accountant.Vertex{
		SignerPublicAddress: c19S.Addr, CreatedAt: time.Unix(0, c.VxNanos), Signature: fill(c.SigLen, "rand", 8), Transaction: t,
		Hash: ref.Hash{7, 7}, LeftParentHash: ref.Hash{1}, RightParentHash: ref.Hash{2}, Weight: c.Weight,
	}
}

func trxDiff(a, b *transaction.Transaction) string {
	switch {
	case a.CreatedAt.UnixNano() != b.CreatedAt.UnixNano():
		return fmt.Sprintf("transaction.CreatedAt %d -> %d", a.CreatedAt.UnixNano(), b.CreatedAt.UnixNano())
	case a.IssuerAddress != b.IssuerAddress:
		return "IssuerAddress"
	case a.ReceiverAddress != b.ReceiverAddress:
		return "ReceiverAddress"
	case a.Subject != b.Subject:
		return fmt.Sprintf("Subject (len %d -> %d)", len(a.Subject), len(b.Subject))
	case !bytes.Equal(a.Data, b.Data):
		return fmt.Sprintf("Data (len %d -> %d)", len(a.Data), len(b.Data))
	case !bytes.Equal(a.IssuerSignature, b.IssuerSignature):
		return "IssuerSignature"
	case !bytes.Equal(a.ReceiverSignature, b.ReceiverSignature):
		return fmt.Sprintf("ReceiverSignature (len %d -> %d)", len(a.ReceiverSignature), len(b.ReceiverSignature))
	case a.Hash != b.Hash:
		return "transaction.Hash"
	case a.Spice != b.Spice:
		return fmt.Sprintf("Spice %v -> %v", a.Spice, b.Spice)
	}
	return ""
}

func vrxDiff(a, b *accountant.Vertex) string {
	switch {
	case a.SignerPublicAddress != b.SignerPublicAddress:
		return "SignerPublicAddress"
	case a.CreatedAt.UnixNano() != b.CreatedAt.UnixNano():
		return fmt.Sprintf("vertex.CreatedAt %d -> %d", a.CreatedAt.UnixNano(), b.CreatedAt.UnixNano())
	case !bytes.Equal(a.Signature, b.Signature):
		return "Signature"
	case a.Hash != b.Hash:
		return "Hash"
	case a.LeftParentHash != b.LeftParentHash:
		return "LeftParentHash"
	case a.RightParentHash != b.RightParentHash:
		return "RightParentHash"
	case a.Weight != b.Weight:
		return fmt.Sprintf("Weight %d -> %d", a.Weight, b.Weight)
	}
	return trxDiff(&a.Transaction, &b.Transaction)
}

var repoVerifier = wallet.NewVerifier()

// c19Judge runs every transcoding on the vertex built from c.
func c19Judge(c c19Case) (sig, msg string) {
	v := c19Build(c)
	return c19JudgeVertex(v, c.Signed)
}

// c19JudgeVertex pushes one vertex through every transcoding.
func c19JudgeVertex(v accountant.Vertex, signed bool) (sig, msg string) {
	c := struct{ Signed bool }{signed}
	origValid := c.Signed && ref.VertexValid(&v) // garbage/empty addresses make even a "signed" original invalid
	check := func(path string, got *accountant.Vertex) (string, string) {
		if d := vrxDiff(&v, got); d != "" {
			return path + ":field-changed", fmt.Sprintf("%s changed %s", path, d)
		}
		if origValid {
			if !ref.VertexValid(got) {
				return path + ":no-longer-verifies", path + ": copy of a validly signed vertex fails the reference verification"
			}
			if err := accountant.VerifVerifyVertex(got, repoVerifier); err != nil {
				return path + ":no-longer-verifies", fmt.Sprintf("%s: copy of a validly signed vertex fails the repository's verify: %v", path, err)
			}
		}
		return "", ""
	}
	guard := func(path string, f func() (string, string)) (s, m string) {
		defer func() {
			if r := recover(); r != nil {
				s, m = path+":panic", fmt.Sprintf("%s panicked: %v", path, r)
			}
		}()
		return f()
	}
	// 1. wire mapping in memory
	if s, m := guard("vertex->proto->vertex", func() (string, string) {
		pv := gossip.VerifVertexToProto(&v)
		back := gossip.VerifProtoToVertex(pv)
		return check("vertex->proto->vertex", &back)
	}); s != "" {
		return s, m
	}
	// 2. full wire trip
	if s, m := guard("vertex->wire->vertex", func() (string, string) {
		pv := gossip.VerifVertexToProto(&v)
		raw, err := proto.Marshal(pv)
		if err != nil {
			if !utf8.ValidString(v.Transaction.Subject) || !utf8.ValidString(v.Transaction.IssuerAddress) || !utf8.ValidString(v.Transaction.ReceiverAddress) || !utf8.ValidString(v.SignerPublicAddress) {
				return "", "" // proto3 refuses invalid UTF-8 in string fields: accepted, counted by the caller
			}
			return "wire:marshal-error", fmt.Sprintf("proto.Marshal failed on valid UTF-8 content: %v", err)
		}
		var pv2 protobufcompiled.Vertex
		if err := proto.Unmarshal(raw, &pv2); err != nil {
			return "wire:unmarshal-error", fmt.Sprintf("proto.Unmarshal of own output failed: %v", err)
		}
		if len(pv2.Hash) != 32 || len(pv2.LeftParentHash) != 32 {
			return "wire:hash-length", "hash length changed on the wire"
		}
		back := gossip.VerifProtoToVertex(&pv2)
		return check("vertex->wire->vertex", &back)
	}); s != "" {
		return s, m
	}
	// 3. transaction transformers (documented preconditions: non-empty subject/addresses/signature, non-zero time)
	if s, m := guard("trx->proto->trx", func() (string, string) {
		t := v.Transaction
		pt, err := transformers.TrxToProtoTrx(t)
		pre := t.Subject != "" && t.IssuerAddress != "" && t.ReceiverAddress != "" && !t.CreatedAt.IsZero() && len(t.IssuerSignature) != 0
		if err != nil {
			if pre {
				return "trx->proto:spurious-error", fmt.Sprintf("TrxToProtoTrx refused a complete transaction: %v", err)
			}
			return "", ""
		}
		if pt.CreatedAt == 0 {
			return "", "" // ProtoTrxToTrx treats 0 as absent
		}
		back, err := transformers.ProtoTrxToTrx(pt)
		if err != nil {
			if pre {
				return "proto->trx:spurious-error", fmt.Sprintf("ProtoTrxToTrx refused the image of a complete transaction: %v", err)
			}
			return "", ""
		}
		if d := trxDiff(&t, &back); d != "" {
			return "trx->proto->trx:field-changed", "trx->proto->trx changed " + d
		}
		return "", ""
	}); s != "" {
		return s, m
	}
	// 4. storage msgpack: vertex
	if s, m := guard("vertex->msgpack->vertex", func() (string, string) {
		raw, err := accountant.VerifEncodeVertex(&v)
		if err != nil {
			return "msgpack:encode-error", fmt.Sprintf("vertex encode failed: %v", err)
		}
		back, err := accountant.VerifDecodeVertex(raw)
		if err != nil {
			return "msgpack:decode-error", fmt.Sprintf("vertex decode of own encoding failed: %v", err)
		}
		return check("vertex->msgpack->vertex", &back)
	}); s != "" {
		return s, m
	}
	// 5. cache msgpack: transaction, melange, balance
	if s, m := guard("trx->msgpack->trx", func() (string, string) {
		t := v.Transaction
		raw, err := t.Encode()
		if err != nil {
			return "msgpack:encode-error", fmt.Sprintf("transaction encode failed: %v", err)
		}
		back, err := transaction.Decode(raw)
		if err != nil {
			return "msgpack:decode-error", fmt.Sprintf("transaction decode of own encoding failed: %v", err)
		}
		if d := trxDiff(&t, &back); d != "" {
			return "trx->msgpack->trx:field-changed", "trx->msgpack->trx changed " + d
		}
		mel := t.Spice
		rawM, err := mel.Encode()
		if err != nil {
			return "msgpack:encode-error", fmt.Sprintf("melange encode failed: %v", err)
		}
		backM, err := spice.Decode(rawM)
		if err != nil || backM != mel {
			return "melange->msgpack:field-changed", fmt.Sprintf("melange %v -> %v (err %v)", mel, backM, err)
		}
		bal := accountant.Balance{AccountedAt: v.CreatedAt, WalletPublicAddress: t.ReceiverAddress, Spice: mel}
		rawB, err := accountant.VerifEncodeBalance(&bal)
		if err != nil {
			return "msgpack:encode-error", fmt.Sprintf("balance encode failed: %v", err)
		}
		backB, err := accountant.VerifDecodeBalance(rawB)
		if err != nil || backB.Spice != mel || backB.WalletPublicAddress != bal.WalletPublicAddress || backB.AccountedAt.UnixNano() != bal.AccountedAt.UnixNano() {
			return "balance->msgpack:field-changed", fmt.Sprintf("balance changed (err %v): %v -> %v", err, bal, backB)
		}
		return "", ""
	}); s != "" {
		return s, m
	}
	return "", ""
}

func c19Boundary(c c19Case) bool {
	in := func(x int, xs []int) bool {
		for _, y := range xs {
			if x == y {
				return true
			}
		}
		return false
	}
	inU := func(x uint64) bool {
		for _, y := range c19Ints {
			if x == y {
				return true
			}
		}
		return false
	}
	inN := func(x int64) bool {
		for _, y := range c19Nanos {
			if x == y {
				return true
			}
		}
		return false
	}
	return in(c.SubjectLen, c19Lens) || in(c.DataLen, c19Lens) || inU(c.Cur) || inU(c.Supp) || inU(c.Weight) || inN(c.TxNanos) || inN(c.VxNanos) ||
		c.SubjectKind == "badutf8" || c.SubjectKind == "nul" || c.AddrKind != "normal" || c.DataNil
}

func c19Typical() c19Case {
	return c19Case{SubjectLen: 12, SubjectKind: "ascii", DataLen: 40, DataKind: "rand", Cur: 10, Supp: 5, Weight: 77,
		TxNanos: 1_700_000_000_000_000_001, VxNanos: 1_700_000_000_000_000_777, Signed: true, SigLen: 64, AddrKind: "normal"}
}

func TestC19(t *testing.T) {
	st := newStats(t, "C19", "cases = vertices built field by field: one-field-at-a-boundary and all-pairs over {byte/string lengths 0,1,31,32,33,255,256,65535,65536} x {content zeros,0xFF,ascii,NUL,invalid UTF-8,random} x {integers at 2^7,2^8,2^16,2^32,2^63,2^64 boundaries} x {timestamps epoch, +-1ns, 2^32 s +-1, 2^33 s, negative, int64 limits}, validly signed and unsigned variants, countersigned or not; rapid adds random fill; transcodings: vertex<->proto (in memory and through proto.Marshal), transaction<->proto transformers, msgpack encode(vmihailenco)/decode(shamaton) of vertex, transaction, melange, balance; non-trivial = at least one field on a boundary value; enumerated tuples distinct by construction, random by fingerprint")
	sh, n := shard(), nshards()
	utf8Refused := 0
	run := func(c c19Case, enumerated bool) bool {
		sig, msg := c19Judge(c)
		st.eval(1)
		if c19Boundary(c) {
			if enumerated {
				st.enumNontrivial(1)
			} else {
				st.nontrivial(fp64(fmt.Sprintf("%+v", c)))
			}
		}
		if c.SubjectKind == "badutf8" && c.SubjectLen > 0 {
			utf8Refused++
		}
		if sig != "" {
			if enumerated {
				return !st.reportOnce(sig, msg, c)
			}
			return !st.report(sig, msg, c)
		}
		return true
	}
	t.Run("enum", func(t *testing.T) {
		failed := false
		idx := 0
		do := func(c c19Case) {
			idx++
			if idx%n != sh {
				return
			}
			if !run(c, true) {
				failed = true
			}
		}
		kinds := []string{"zeros", "ff", "ascii", "nul", "badutf8", "rand"}
		// one field at a boundary, others typical
		for _, signed := range []bool{true, false} {
			for _, counter := range []bool{false, true} {
				base := c19Typical()
				base.Signed, base.Counter = signed, counter
				for _, l := range c19Lens {
					for _, k := range kinds {
						c := base
						c.SubjectLen, c.SubjectKind = l, k
						do(c)
						c = base
						c.DataLen, c.DataKind = l, k
						do(c)
						if l == 0 {
							c.DataNil = true
							do(c)
						}
					}
					if !signed {
						c := base
						c.SigLen = l
						do(c)
					}
				}
				for _, x := range c19Ints {
					c := base
					c.Cur = x
					do(c)
					c = base
					c.Supp = x
					do(c)
					c = base
					c.Weight = x
					do(c)
				}
				for _, x := range c19Nanos {
					c := base
					c.TxNanos = x
					do(c)
					c = base
					c.VxNanos = x
					do(c)
				}
				for _, a := range []string{"empty", "garbage", "long"} {
					c := base
					c.AddrKind = a
					do(c)
				}
			}
		}
		// all pairs of (integer boundary) x (timestamp boundary), and (length) x (length)
		base := c19Typical()
		for _, x := range c19Ints {
			for _, ts := range c19Nanos {
				c := base
				c.Cur, c.Supp, c.Weight, c.TxNanos, c.VxNanos = x, x/3, ^x, ts, ts
				do(c)
			}
		}
		lens := c19Lens
		if !thorough() {
			lens = []int{0, 1, 32, 33, 255, 256, 65536}
		}
		for _, l1 := range lens {
			for _, l2 := range lens {
				c := base
				c.SubjectLen, c.DataLen, c.SubjectKind, c.DataKind = l1, l2, "ascii", "rand"
				do(c)
			}
		}
		st.Exhaustive = true
		st.sample(c19Typical())
		if failed {
			t.Errorf("C19: violations in enumeration")
		}
	})
	t.Run("random", func(t *testing.T) {
		lenG := rapid.OneOf(rapid.SampledFrom(c19Lens), rapid.IntRange(0, 300), rapid.IntRange(0, 70000))
		intG := rapid.OneOf(rapid.SampledFrom(c19Ints), rapid.Uint64())
		nanoG := rapid.OneOf(rapid.SampledFrom(c19Nanos), rapid.Int64(), rapid.Int64Range(0, 4e18))
		rapid.Check(t, func(rt *rapid.T) {
			if pastSoftDeadline(st) {
				return
			}
			c := c19Case{
				SubjectLen: lenG.Draw(rt, "subjectLen"), SubjectKind: rapid.SampledFrom([]string{"zeros", "ff", "ascii", "ascii", "nul", "badutf8", "rand"}).Draw(rt, "subjectKind"),
				DataLen: lenG.Draw(rt, "dataLen"), DataKind: rapid.SampledFrom([]string{"zeros", "ff", "ascii", "rand"}).Draw(rt, "dataKind"),
				DataNil: rapid.Bool().Draw(rt, "dataNil"),
				Cur:     intG.Draw(rt, "cur"), Supp: intG.Draw(rt, "supp"), Weight: intG.Draw(rt, "weight"),
				TxNanos: nanoG.Draw(rt, "txNanos"), VxNanos: nanoG.Draw(rt, "vxNanos"),
				Counter: rapid.Bool().Draw(rt, "counter"), Signed: rapid.IntRange(0, 3).Draw(rt, "signed") > 0,
				SigLen:   rapid.SampledFrom([]int{0, 1, 63, 64, 65, 256}).Draw(rt, "sigLen"),
				AddrKind: rapid.SampledFrom([]string{"normal", "normal", "normal", "empty", "garbage", "long"}).Draw(rt, "addrKind"),
			}
			if !run(c, false) {
				rt.Fatalf("C19 violated: %+v", c)
			}
			st.sample(c)
		})
	})
	st.labelN("cases-with-invalid-utf8-subject(proto.Marshal error accepted)", int64(utf8Refused))
}

func TestReplayC19(t *testing.T) {
	var c c19Case
	loadReplay(t, &c)
	if sig, msg := c19Judge(c); sig != "" {
		t.Fatalf("VIOLATION reproduced sig=%s: %s", sig, msg)
	}
}
