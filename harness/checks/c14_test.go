package checks

import (
	"context"
	"errors"
	"fmt"
	"math/big"
	"net"
	"strings"
	"testing"
	"time"

	"github.com/bartossh/Computantis/src/accountant"
	"github.com/bartossh/Computantis/src/cache"
	"github.com/bartossh/Computantis/src/gossip"
	"github.com/bartossh/Computantis/src/pipe"
	"github.com/bartossh/Computantis/src/protobufcompiled"
	"github.com/bartossh/Computantis/src/spice"
	"github.com/bartossh/Computantis/src/wallet"
	"google.golang.org/grpc"
	"google.golang.org/grpc/credentials/insecure"
	"google.golang.org/grpc/test/bufconn"
	"google.golang.org/protobuf/types/known/emptypb"
	"pgregory.net/rapid"

	"verif/harness/ref"
	"verif/harness/sim"
)

// C14 — a node that syncs the DAG from a peer reproduces the peer's ledger.

type c14Plan struct {
	Steps     int    `json:"steps"`
	Nodes     int    `json:"nodes"`
	Rogue     bool   `json:"rogue"`
	Truncated bool   `json:"truncated"` // source truncated before streaming
	Permute   bool   `json:"permute"`
	Corrupt   string `json:"corrupt"` // "", dup-vertex, dup-tx, drop-parent, second-self-sealed, empty-tx, cut, emptied-in-place, unknown-parent-in-place
	Pos       int    `json:"pos"`
	AtGenesis bool   `json:"at_genesis"` // the in-place corruptions hit the self-sealed (genesis) vertex itself
	Transport bool   `json:"transport"`  // through the real LoadDag RPC over an in-memory connection
	FollowUps int    `json:"follow_ups"`
}

func c14Collect(book *accountant.AccountingBook) ([]*accountant.Vertex, error) {
	var out []*accountant.Vertex
	err := sim.GuardT(30*time.Second, func() error {
		for v := range book.StreamDAG(bg) {
			if v == nil {
				break
			}
			c := sim.CloneVertex(v)
			out = append(out, &c)
		}
		return nil
	})
	return out, err
}

// c14Malformed says whether a stream is malformed by the statement's list.
func c14Malformed(stream []*accountant.Vertex) (bool, string) {
	byHash := map[ref.Hash]bool{}
	byTx := map[ref.Hash]bool{}
	self := 0
	for _, v := range stream {
		if byHash[v.Hash] {
			return true, "duplicate vertex"
		}
		byHash[v.Hash] = true
		if byTx[v.Transaction.Hash] {
			return true, "duplicate transaction"
		}
		byTx[v.Transaction.Hash] = true
		if v.Transaction.IssuerAddress == v.SignerPublicAddress {
			self++
		}
		if !ref.IsSpice(v) && len(v.Transaction.Data) == 0 {
			return true, "empty transaction"
		}
	}
	if self >= 2 {
		return true, "second self-sealed vertex"
	}
	for _, v := range stream {
		for _, p := range ref.Parents(v) {
			if !byHash[p] {
				return true, "unknown parent"
			}
		}
	}
	return false, ""
}

func loadDagRunning() bool {
	return sim.CountFrames("accountant.(*AccountingBook).LoadDag") > 0
}

// c14Load feeds the stream to a fresh node, directly or through the real RPC.
func c14Load(m *lm, stream []*accountant.Vertex, transport bool, name string) (*sim.Node, error, string) {
	tgt, err := m.w.NewDetachedNode(name)
	if err != nil {
		return nil, nil, "new node: " + err.Error()
	}
	{
		ch := make(chan *accountant.Vertex, len(stream)+1)
		for _, v := range stream {
			c := sim.CloneVertex(v)
			ch <- &c
		}
		close(ch)
		var cause error
		if g := sim.GuardT(60*time.Second, func() error { tgt.Book.LoadDag(func(e error) { cause = e }, ch); return nil }); g != nil {
			return tgt, nil, "LoadDag: " + g.Error()
		}
		return tgt, cause, ""
	}
}

func c14Run(rt *rapid.T, p c14Plan, seed string) (m *lm, log []string, nontrivial bool, inconclusive string) {
	cfg := lmConfig{Nodes: p.Nodes, Users: 4, Rogue: p.Rogue, BoundaryAmt: true, Steps: p.Steps}
	m, err := lmNew(rt, cfg, seed)
	if err != nil {
		return m, nil, false, "world: " + err.Error()
	}
	step := func(desc string) {
		if desc != "" {
			log = append(log, desc)
			m.observe(desc)
		}
	}
	bag := []string{"propose", "propose", "propose", "propose"}
	if p.Rogue {
		bag = append(bag, "craft", "craft", "craft")
	}
	if p.Nodes > 1 {
		bag = append(bag, "deliver", "deliver", "deliverAll")
	}
	for i := 0; i < p.Steps && m.stuck == nil; i++ {
		switch rapid.SampledFrom(bag).Draw(rt, "srcOp") {
		case "propose":
			step(m.opPropose())
		case "craft":
			step(m.opCraft())
		case "deliver":
			step(m.opDeliver())
		case "deliverAll":
			step(m.opDeliverAll())
		}
	}
	if p.Truncated {
		r := m.w.Apply(sim.Op{K: "filler", N: 0, Cnt: 1003, V: 0})
		if r.Err != nil {
			return m, log, false, "filler: " + r.Err.Error()
		}
		if t := m.w.Apply(sim.Op{K: "truncate", N: 0}); t.Err != nil {
			return m, log, false, "truncate: " + t.Err.Error()
		}
		step("filler(1003)+truncate on the source")
		m.label("c14:source-truncated")
	}
	if m.stuck != nil {
		return m, log, false, "stuck: " + m.stuck.Error()
	}
	src := m.w.Nodes[0]
	S := m.snaps[0]
	stream, err := c14Collect(src.Book)
	if err != nil {
		if errors.Is(err, sim.ErrStuck) {
			m.stuckViol("stream", err)
			return m, log, false, "stuck: " + err.Error()
		}
		m.addViol("C08", "panic:stream", "StreamDAG did not finish: %v", err)
		return m, log, false, ""
	}
	if len(S.Live) == 0 {
		return m, log, false, "source ledger is empty (every tip was dropped): nothing to sync"
	}
	tips := S.Tips()
	nontrivial = len(tips) >= 2 || len(S.Live) >= 20 || p.Truncated || p.Corrupt != ""
	if len(tips) >= 2 {
		m.label("c14:source-multi-tip")
	}
	// the serving peer must stream exactly its live graph
	streamed := map[ref.Hash]int{}
	for _, v := range stream {
		streamed[v.Hash]++
	}
	for h := range S.Live {
		if streamed[h] != 1 {
			m.addViol("C14", "stream-incomplete", "the peer's stream contains live vertex %s %d times (source has %d live vertices, %d tips, stream has %d items)", short(h), streamed[h], len(S.Live), len(tips), len(stream))
			return m, log, nontrivial, ""
		}
	}
	if len(stream) != len(S.Live) {
		m.addViol("C14", "stream-extra", "stream has %d items, the live graph %d vertices", len(stream), len(S.Live))
		return m, log, nontrivial, ""
	}
	if p.Permute {
		perm := rapid.Permutation(stream).Draw(rt, "perm")
		stream = perm
		m.label("c14:permuted-stream")
	}
	// one corruption
	if p.Corrupt != "" && len(stream) > 1 {
		i := p.Pos % len(stream)
		switch p.Corrupt {
		case "dup-vertex":
			c := sim.CloneVertex(stream[i])
			stream = append(stream[:i:i], append([]*accountant.Vertex{&c}, stream[i:]...)...)
		case "dup-tx":
			tip := stream[i]
			v := ref.Seal(tip.Transaction, tip.Hash, tip.Hash, tip.Weight+1, tip.CreatedAt.Add(time.Second), m.w.Wallets[m.w.RogueWallet(1)])
			stream = append(stream, &v)
		case "drop-parent":
			// drop a vertex that is somebody's parent
			isParent := map[ref.Hash]bool{}
			for _, v := range stream {
				for _, pp := range ref.Parents(v) {
					isParent[pp] = true
				}
			}
			for k := 0; k < len(stream); k++ {
				j := (i + k) % len(stream)
				if isParent[stream[j].Hash] {
					stream = append(stream[:j:j], stream[j+1:]...)
					break
				}
			}
		case "second-self-sealed":
			tip := stream[i]
			rw := m.w.Wallets[m.w.RogueWallet(0)]
			if p.AtGenesis {
				rw = m.w.Wallets[m.w.NodeWallet(0)] // the second self-sealed vertex comes from the very wallet that sealed genesis
				m.label("c14:second-self-sealed-by-genesis-wallet")
			}
			tx := ref.MakeTx("self", spice.New(1, 0), nil, m.w.Wallets[1].Addr, rw, tip.CreatedAt.Add(time.Second))
			v := ref.Seal(tx, tip.Hash, tip.Hash, tip.Weight+1, tip.CreatedAt.Add(2*time.Second), rw)
			stream = append(stream, &v)
		case "empty-tx":
			tip := stream[i]
			tx := ref.MakeTx("empty", spice.Melange{}, nil, m.w.Wallets[1].Addr, m.w.Wallets[2], tip.CreatedAt.Add(time.Second))
			v := ref.Seal(tx, tip.Hash, tip.Hash, tip.Weight+1, tip.CreatedAt.Add(2*time.Second), m.w.Wallets[m.w.RogueWallet(0)])
			stream = append(stream, &v)
		case "cut":
			stream = stream[:1+i%(len(stream)-1)]
		case "emptied-in-place", "unknown-parent-in-place":
			// one streamed vertex is damaged where it stands (every other class above adds or removes an item)
			j := i
			if p.AtGenesis {
				for k, v := range stream {
					if v.Hash == m.w.Genesis.Hash {
						j = k
					}
				}
				m.label("c14:corrupt-at-genesis-vertex")
			}
			c := sim.CloneVertex(stream[j])
			if p.Corrupt == "emptied-in-place" {
				c.Transaction.Spice = spice.Melange{}
				c.Transaction.Data = nil
			} else {
				c.LeftParentHash = ref.Hash{0xde, 0xad, byte(j), 0x01}
				c.RightParentHash = ref.Hash{0xde, 0xad, byte(j), 0x02}
			}
			stream[j] = &c
		}
		m.label("c14:corrupt:" + p.Corrupt)
	}
	malformed, why := c14Malformed(stream)
	if p.Corrupt == "" {
		// what the real peer streams is by definition a ledger "the serving peer can be in": it must load
		malformed, why = false, ""
	}
	var tgt *sim.Node
	var cause error
	var inc string
	if p.Transport {
		tgt, cause, inc = c14LoadTransport(m, stream)
		m.label("c14:real-transport")
	} else {
		tgt, cause, inc = c14Load(m, stream, false, "sync-target")
	}
	if inc != "" {
		return m, log, nontrivial, inc
	}
	loaded := tgt.Book.DagLoaded()
	log = append(log, fmt.Sprintf("sync: %d vertices streamed (corruption=%q malformed=%v %s) -> loaded=%v cause=%v", len(stream), p.Corrupt, malformed, why, loaded, cause))
	if malformed {
		if loaded {
			m.addViol("C14", "malformed-stream-loaded:"+strings.ReplaceAll(why, " ", "-"), "a stream with %s (%d items) left the node marked as loaded", why, len(stream))
		}
		return m, log, nontrivial, ""
	}
	if !loaded {
		sig := "clean-stream-not-loaded"
		if p.Truncated {
			sig = "source-truncated-not-syncable"
		}
		m.addViol("C14", sig, "a well-formed stream of %d vertices (%d tips, permuted=%v, transport=%v) left the node NOT loaded: %v", len(stream), len(tips), p.Permute, p.Transport, cause)
		return m, log, nontrivial, ""
	}
	if p.Corrupt == "cut" {
		return m, log, nontrivial, "" // a parent-closed prefix is a smaller well-formed ledger; nothing to compare with the source
	}
	// equality of ledgers
	raw, err := sim.RawSnapshot(tgt.Book)
	if err != nil {
		return m, log, nontrivial, "snapshot: " + err.Error()
	}
	T := sim.MakeSnap(raw, nil)
	if len(T.Live) != len(S.Live) {
		m.addViol("C14", "vertex-set-differs", "loaded node has %d vertices, the peer %d", len(T.Live), len(S.Live))
		return m, log, nontrivial, ""
	}
	for h, v := range S.Live {
		tv, ok := T.Live[h]
		if !ok {
			m.addViol("C14", "vertex-set-differs", "loaded node lacks vertex %s", short(h))
			return m, log, nontrivial, ""
		}
		if d := vrxDiff(v, tv); d != "" {
			m.addViol("C14", "vertex-content-differs", "vertex %s differs in %s after sync", short(h), d)
		}
		se, te := S.EdgeInto[string(h[:])], T.EdgeInto[string(h[:])]
		if len(se) != len(te) {
			m.addViol("C14", "edges-differ", "vertex %s has %d inbound edges on the peer and %d on the loaded node", short(h), len(se), len(te))
			continue
		}
		for pe := range se {
			if _, ok := te[pe]; !ok {
				m.addViol("C14", "edges-differ", "vertex %s lacks the edge from %x on the loaded node", short(h), pe[:4])
			}
		}
	}
	if raw.GenesisAddress != S.Raw.GenesisAddress {
		sig := "genesis-wallet-differs"
		if p.Truncated {
			sig = "source-truncated-genesis-wallet-differs"
		}
		m.addViol("C14", sig, "loaded node takes %q as the genesis wallet, the peer %q", raw.GenesisAddress, S.Raw.GenesisAddress)
	}
	for tx, tgtH := range S.Raw.Index {
		if _, live := S.Live[idxHash(tgtH)]; !live {
			continue
		}
		if got, ok := raw.Index[tx]; !ok || string(got) != string(tgtH) {
			m.addViol("C14", "index-differs", "transaction index entry %s missing or different on the loaded node", short(tx))
		}
	}
	// balances: every answer of the loaded node must be a value the peer may give (tip by tip)
	for wi, k := range m.w.Wallets {
		refset := map[string]bool{}
		anyNeg := false
		for tp := range tips {
			v := c07f(m, S, tp, k.Addr)
			if v.Sign() < 0 {
				anyNeg = true
			} else {
				refset[v.String()] = true
			}
		}
		for rep := 0; rep < 2; rep++ {
			var b accountant.Balance
			var berr error
			if g := sim.GuardT(30*time.Second, func() error { b, berr = tgt.Book.CalculateBalance(bg, k.Addr); return nil }); g != nil {
				return m, log, nontrivial, "balance: " + g.Error()
			}
			if berr != nil {
				in, _ := m.w.Arch.Flow(S.LiveSet(), k.Addr)
				if !anyNeg && in.Cmp(new(big.Int).Lsh(big.NewInt(1), 123)) < 0 && !grossOverflow(m, S, k.Addr) {
					m.addViol("C14", "balance-differs", "loaded node answers the balance query for %s (#%d) with an error (%v); the peer's possible answers: %v", k.Name, wi, berr, keys(refset))
				}
				continue
			}
			if !refset[ref.V(b.Spice).String()] {
				m.addViol("C14", "balance-differs", "loaded node reports %s for %s (#%d); the peer's possible answers tip by tip: %v", ref.V(b.Spice), k.Name, wi, keys(refset))
			}
		}
	}
	// follow-ups: same gossip to both, same outcome, equal live sets afterwards
	weightDiverged := false
	for f := 0; f < p.FollowUps && !focusHas(m.viol, "C14") && !weightDiverged; f++ {
		cur := m.snaps[0]
		ctips := ref.SortedHashes(cur.Tips())
		if len(ctips) == 0 {
			break
		}
		kind := rapid.SampledFrom([]string{"child", "child", "overdraw+child", "duplicate", "old-parents-low-weight"}).Draw(rt, "followKind")
		var vs []*accountant.Vertex
		pickTip := func(label string) ref.Hash { return ctips[rapid.IntRange(0, len(ctips)-1).Draw(rt, label)] }
		rg := m.w.RogueWallet(0)
		switch kind {
		case "child":
			l, r := pickTip("fl"), pickTip("fr")
			vs = append(vs, m.w.Craft(rg, m.w.MakeTx(0, 1, spice.Melange{}, 9), l, r, 0))
		case "overdraw+child":
			l := pickTip("fl")
			bad := m.w.Craft(rg, m.w.MakeTx(3, 1, spice.New(777777, 0), 0), l, l, 0)
			vs = append(vs, bad, m.w.Craft(rg, m.w.MakeTx(0, 1, spice.Melange{}, 9), bad.Hash, bad.Hash, 0))
		case "duplicate":
			live := ref.SortedHashes(cur.LiveSet())
			vs = append(vs, m.w.Arch.V[live[rapid.IntRange(0, len(live)-1).Draw(rt, "dupIdx")]])
		case "old-parents-low-weight":
			live := ref.SortedHashes(cur.LiveSet())
			o := live[rapid.IntRange(0, len(live)-1).Draw(rt, "oldIdx")]
			vs = append(vs, m.w.Craft(rg, m.w.MakeTx(0, 2, spice.Melange{}, 7), o, o, uint64(1+rapid.IntRange(0, 3).Draw(rt, "lowW"))))
		}
		m.label("c14:follow-up:" + kind)
		for _, v := range vs {
			if weightDiverged {
				break // everything after a weight-rule divergence is a consequence of it
			}
			a, b := sim.CloneVertex(v), sim.CloneVertex(v)
			var ea, eb error
			if g := sim.GuardT(30*time.Second, func() error { ea = src.Book.AddLeaf(bg, &a); eb = tgt.Book.AddLeaf(bg, &b); return nil }); g != nil {
				return m, log, nontrivial, "follow-up: " + g.Error()
			}
			if weightRule(ea) != weightRule(eb) {
				// root cause: LoadDag does not transfer the peer's weight/throughput state, so the weight rule (and only
				// it) decides differently on the two nodes - also when both refuse, for different reasons and dropping
				// different tentative tips. Nothing after this point can be compared.
				weightDiverged = true
				if (ea == nil) == (eb == nil) {
					m.label("c14:weight-rule-divergence-same-outcome")
					break
				}
			}
			if (ea == nil) != (eb == nil) {
				sig := "follow-up-outcome-differs"
				if weightDiverged {
					sig = "weight-state-not-transferred"
				}
				m.addViol("C14", sig, "follow-up %s %s: the peer answers %v, the loaded node %v", kind, m.describe(v), ea, eb)
			} else if errors.Is(ea, accountant.ErrParentDoesNotExists) != errors.Is(eb, accountant.ErrParentDoesNotExists) {
				m.addViol("C14", "follow-up-outcome-differs", "follow-up %s: different error class peer=%v loaded=%v", kind, ea, eb)
			}
		}
		m.observe("follow-up " + kind)
		raw2, err := sim.RawSnapshot(tgt.Book)
		if err == nil && !weightDiverged {
			T2 := sim.MakeSnap(raw2, nil)
			if !sameKeys(T2.LiveSet(), m.snaps[0].LiveSet()) {
				m.addViol("C14", "ledgers-diverge-after-follow-up", "after follow-up %s the loaded node has %d live vertices, the peer %d", kind, len(T2.Live), len(m.snaps[0].Live))
			}
		}
		log = append(log, "follow-up "+kind)
	}
	return m, log, nontrivial, ""
}

// c14ReplayRun: rebuild the source from the operation log, stream, apply the recorded corruption, load.
func c14ReplayRun(p c14Plan, seed string, ops []sim.Op) (string, string) {
	cfg := lmConfig{Nodes: max(1, p.Nodes), Users: 4, Rogue: p.Rogue, BoundaryAmt: true}
	m, err := lmNew(nil, cfg, seed)
	if err != nil {
		return "", ""
	}
	defer m.w.Close()
	for _, op := range ops {
		m.w.Apply(op)
	}
	m.observe("replayed source")
	S := m.snaps[0]
	stream, err := c14Collect(m.w.Nodes[0].Book)
	if err != nil {
		if errors.Is(err, sim.ErrStuck) {
			if ok, _ := sim.ConfirmStuck(5, 400*time.Millisecond); !ok {
				return "", ""
			}
		}
		return "stream-stuck", err.Error()
	}
	streamed := map[ref.Hash]int{}
	for _, v := range stream {
		streamed[v.Hash]++
	}
	for h := range S.Live {
		if streamed[h] != 1 {
			return "stream-incomplete", fmt.Sprintf("the peer's stream contains live vertex %s %d times", short(h), streamed[h])
		}
	}
	if p.Corrupt == "" && !p.Truncated {
		tgt, cause, inc := c14Load(m, stream, false, "replay-target")
		if inc != "" {
			return "", ""
		}
		if !tgt.Book.DagLoaded() {
			return "clean-stream-not-loaded", fmt.Sprintf("well-formed stream of %d vertices not loaded: %v", len(stream), cause)
		}
	}
	return "", ""
}

func idxHash(b []byte) ref.Hash {
	var h ref.Hash
	copy(h[:], b)
	return h
}

func keys(m map[string]bool) []string {
	var out []string
	for k := range m {
		out = append(out, k)
	}
	return out
}

func grossOverflow(m *lm, s *sim.Snap, addr string) bool {
	max64 := new(big.Int).Mul(new(big.Int).SetUint64(^uint64(0)), new(big.Int).SetUint64(ref.E18))
	in, out := m.w.Arch.Flow(s.LiveSet(), addr)
	return in.Cmp(max64) > 0 || out.Cmp(max64) > 0
}

// c14LoadTransport: the real LoadDag server handler streaming from a real ledger holding `stream`, and the real client.
func c14LoadTransport(m *lm, stream []*accountant.Vertex) (*sim.Node, error, string) {
	// serving side: a detached book loaded with exactly the stream (well-formed streams only reach this path when
	// clean; for corrupted streams the raw server below sends the items as they are)
	tgt, err := m.w.NewDetachedNode("sync-target-rpc")
	if err != nil {
		return nil, nil, "new node: " + err.Error()
	}
	lis := bufconn.Listen(1 << 20)
	srv := grpc.NewServer()
	protobufcompiled.RegisterGossipAPIServer(srv, &rawStreamServer{stream: stream})
	go srv.Serve(lis)
	defer srv.Stop()
	flash, _ := cache.NewFlash()
	hip, _ := cache.New(4096, 16)
	defer flash.Close()
	defer hip.Close()
	opts := []grpc.DialOption{
		grpc.WithContextDialer(func(ctx context.Context, _ string) (net.Conn, error) { return lis.DialContext(ctx) }),
		grpc.WithTransportCredentials(insecure.NewCredentials()),
	}
	cl := gossip.VerifNewGossiper("client", sim.NewLogger(), time.Second, tgt.Key, wallet.NewVerifier(), tgt.Book, hip, flash, pipe.New(10, 10), opts)
	var uerr error
	if g := sim.GuardT(60*time.Second, func() error { uerr = cl.UpdateDag(bg, "passthrough:///bufnet"); return nil }); g != nil {
		return tgt, nil, "updateDag: " + g.Error()
	}
	for i := 0; i < 90000 && loadDagRunning(); i++ {
		time.Sleep(time.Millisecond)
	}
	if loadDagRunning() {
		return tgt, uerr, "LoadDag goroutine still running after 90 s"
	}
	return tgt, uerr, ""
}

// rawStreamServer sends the given vertices through the repository's own vertex->wire mapping.
type rawStreamServer struct {
	protobufcompiled.UnimplementedGossipAPIServer
	stream []*accountant.Vertex
}

func (s *rawStreamServer) LoadDag(_ *emptypb.Empty, srv protobufcompiled.GossipAPI_LoadDagServer) error {
	for _, v := range s.stream {
		if err := srv.Send(gossip.VerifVertexToProto(v)); err != nil {
			return err
		}
	}
	return nil
}

func TestC14(t *testing.T) {
	st := newStats(t, "C14", "cases = source ledgers generated by the ledger machine (1-2 nodes, rogue side branches, several tips, 5-120 operations, optionally truncated), streamed by the real StreamDAG, optionally permuted, optionally with ONE corruption (duplicate vertex, duplicate transaction, dropped parent, second self-sealed vertex, empty transaction, cut - each by adding or removing an item - or one streamed vertex damaged in place: transaction emptied / parents replaced by unknown hashes, at a drawn position or at the genesis vertex itself), loaded by a fresh node directly or through the real LoadDag RPC over an in-memory connection, then follow-up gossip to both; oracle = stream == live graph; malformed (by the statement's list, recomputed by the harness) => not loaded; well-formed => loaded with equal vertices, edges, index, genesis wallet, balances within the peer's per-tip set, equal follow-up outcomes; non-trivial = source has >=2 tips or >=20 vertices or was truncated, or the stream is corrupted; distinct by operation-log + plan fingerprint")
	sim.Chdir(workDir(t))
	caseNo := 0
	rapid.Check(t, func(rt *rapid.T) {
		if outOfBudget(st) {
			return
		}
		worldsMade++
		caseNo++
		p := c14Plan{
			Steps:     rapid.IntRange(5, 120).Draw(rt, "steps"),
			Nodes:     rapid.SampledFrom([]int{1, 2, 2}).Draw(rt, "nodes"),
			Rogue:     rapid.IntRange(0, 3).Draw(rt, "rogue") > 0,
			Truncated: rapid.IntRange(0, scale(29, 9)).Draw(rt, "truncated") == 0,
			Permute:   rapid.Bool().Draw(rt, "permute"),
			Transport: rapid.IntRange(0, 5).Draw(rt, "transport") == 0,
			FollowUps: rapid.IntRange(0, 6).Draw(rt, "followUps"),
			Pos:       rapid.IntRange(0, 1000).Draw(rt, "pos"),
		}
		if rapid.IntRange(0, 2).Draw(rt, "corruptOn") == 0 {
			p.Corrupt = rapid.SampledFrom([]string{"dup-vertex", "dup-tx", "drop-parent", "second-self-sealed", "empty-tx", "cut", "emptied-in-place", "unknown-parent-in-place"}).Draw(rt, "corrupt")
			p.AtGenesis = rapid.Bool().Draw(rt, "atGenesis")
		}
		seed := fmt.Sprintf("C14-%d-%d", shard(), caseNo)
		m, log, nt, inc := c14Run(rt, p, seed)
		if m != nil && m.w != nil {
			defer func() {
				if m.stuck == nil {
					m.w.Close()
				}
			}()
		}
		if inc != "" {
			st.note("inconclusive case: %s", inc)
			st.label("inconclusive-case")
			return
		}
		st.eval(1)
		for k, v := range m.labels {
			if strings.HasPrefix(k, "c14:") {
				st.labelN(k, int64(v))
			}
		}
		if nt {
			st.nontrivial(fp64(fmt.Sprintf("%+v|%+v", p, compactOps(m.w.Ops))))
			st.sample(map[string]any{"plan": p, "log": trimLog(log, 8)})
		}
		trace := map[string]any{"plan": p, "seed": seed, "log": log, "ops": compactOps(m.w.Ops)}
		for _, v := range m.viol {
			if v.Prop != "C14" {
				st.label("other-property-violation:" + v.Prop + ":" + v.Sig)
				continue
			}
			if st.report(v.Sig, v.Msg, trace) {
				rt.Fatalf("C14 violated (%s): %s\nhistory:\n%s", v.Sig, v.Msg, strings.Join(trimLog(log, 60), "\n"))
			}
		}
	})
}
