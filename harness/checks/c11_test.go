package checks

import (
	"fmt"
	"os"
	"runtime"
	"strings"
	"testing"
	"time"

	"github.com/bartossh/Computantis/src/protobufcompiled"
	"github.com/bartossh/Computantis/src/spice"
	"pgregory.net/rapid"

	"verif/harness/ref"
	"verif/harness/sim"
)

// C11 — gossip reaches every node exactly once and terminates.
// C12 — gossiper lists cannot be forged to suppress delivery.

type c11Case struct {
	N      int    `json:"n"`
	Graph  string `json:"graph"`
	Origin int    `json:"origin"`
	Kind   string `json:"kind"` // vrx | trx | badvrx | badtrx
	Order  []int  `json:"order"`
	DupAt  int    `json:"dup_at"` // re-deliver the message delivered at this step (-1: never)
	Late   bool   `json:"late"`   // the duplicate arrives after the receiver's suppression window has elapsed (vertex items only)
	Flood  int    `json:"flood"`  // this many OTHER items pass through the receiver between the original and its duplicate
	Evil   int    `json:"evil"`   // C12: index of the adversarial relay (-1: none)
	Forge  []int  `json:"forge"`  // C12: the adversary's drawn choices
}

func parseGraph(n int, s string) [][]bool {
	adj := make([][]bool, n)
	for i := range adj {
		adj[i] = make([]bool, n)
	}
	var a, b int
	for _, e := range splitNonEmpty(s, ",") {
		fmt.Sscanf(e, "%d-%d", &a, &b)
		if a < n && b < n {
			adj[a][b], adj[b][a] = true, true
		}
	}
	return adj
}

func splitNonEmpty(s, sep string) []string {
	var out []string
	cur := ""
	for _, r := range s {
		if string(r) == sep {
			if cur != "" {
				out = append(out, cur)
			}
			cur = ""
		} else {
			cur += string(r)
		}
	}
	if cur != "" {
		out = append(out, cur)
	}
	return out
}

// harvested gossiper entries (C12): address -> entries signed for earlier items.
type harvest struct {
	byAddr map[string][]*protobufcompiled.Gossiper
}

func newHarvest() *harvest { return &harvest{byAddr: map[string][]*protobufcompiled.Gossiper{}} }

// runGossip plays one item through the network. choose(step, avail) picks the next in-flight message.
// Returns violation, the choices taken and the number of alternatives at each step.
func (n *vnet) runGossip(c c11Case, choose func(step, avail int) int, forge func(label string, k int) int, hv *harvest) (sig, msg string, taken, avail []int, inconclusive string) {
	adj := parseGraph(c.N, c.Graph)
	evil := map[int]bool{}
	if c.Evil >= 0 {
		evil[c.Evil] = true
	}
	n.setTopology(adj, evil)
	n.resetLog()
	var item ref.Hash
	var chain []ref.Hash
	var issuer, receiver *ref.Key
	switch c.Kind {
	case "vrx":
		v, err := n.originVertex(c.Origin)
		if err != nil {
			return "", "", nil, nil, "origin: " + err.Error()
		}
		item = v.Hash
	case "chain2":
		// two DEPENDENT items in flight together: V1 and its child V2, both accepted at the origin. A relay may see the
		// child first; then its ledger only parks it, and it must not sign / forward it ("forwards an item only after
		// its own ledger has accepted it"). Exactly-once delivery of the overtaking child is C13's business, not judged.
		v1, err := n.originVertex(c.Origin)
		if err != nil {
			return "", "", nil, nil, "origin: " + err.Error()
		}
		if !n.settle() {
			return "", "", nil, nil, "network did not settle after origin"
		}
		v2, err := n.originVertex(c.Origin)
		if err != nil {
			return "", "", nil, nil, "origin: " + err.Error()
		}
		item = v2.Hash
		chain = []ref.Hash{v1.Hash, v2.Hash}
	case "confirm":
		// a contract is first gossiped as an awaiting transaction (to completion), then the vertex sealing that very
		// transaction, countersigned by the receiver, is created at the origin and gossiped: the usual propose/confirm flow
		tx, rc, err := n.originTrxFull(c.Origin)
		if err != nil {
			return "", "", nil, nil, "origin: " + err.Error()
		}
		if !n.settle() {
			return "", "", nil, nil, "network did not settle after origin"
		}
		for k := 0; k < 200; k++ {
			fl := n.sortedInflight()
			if len(fl) == 0 {
				break
			}
			n.take(fl[0])
			n.deliver(fl[0])
			n.settle()
		}
		n.resetLog()
		ref.CounterSign(&tx, rc)
		r := n.w.ProposeTx(c.Origin, tx)
		if r.Err != nil {
			return "", "", nil, nil, "origin confirm: " + r.Err.Error()
		}
		v := sim.CloneVertex(r.Vertex)
		n.nodes[c.Origin].pipe.SendVrx(&v)
		item = r.Vertex.Hash
	case "trx":
		h, is, rc, err := n.originTrx(c.Origin)
		if err != nil {
			return "", "", nil, nil, "origin: " + err.Error()
		}
		item, issuer, receiver = h, is, rc
	case "badvrx":
		// a vertex with a broken sealing signature injected at the origin's handler must produce no forwards
		tips := n.w.Arch.Order
		tip := tips[len(tips)-1]
		v := n.w.Craft(n.w.RogueWallet(0), n.w.MakeTx(0, 1, spice.New(0, 3), 0), tip, tip, 0)
		pv := protoVertex(v)
		pv.Signature[4] ^= 0x20
		item = v.Hash
		n.post(&vmsg{From: (c.Origin + 1) % c.N, To: c.Origin, Vrx: &protobufcompiled.VrxMsgGossip{Vertex: pv}})
		n.mu.Lock()
		n.events = nil
		n.mu.Unlock()
	case "badtrx":
		n.trxCtr++
		issuer, receiver = ref.NewKey("c11-bad-issuer", []byte(fmt.Sprint(n.trxCtr))), ref.NewKey("c11-bad-receiver", []byte(fmt.Sprint(n.trxCtr)))
		tx := ref.MakeTx("bad", spice.Melange{}, sim.DataBytes(12, 1), receiver.Addr, issuer, n.w.Epoch.Add(time.Duration(n.trxCtr)*time.Second))
		tx.IssuerSignature[3] ^= 1
		item = tx.Hash
		n.post(&vmsg{From: (c.Origin + 1) % c.N, To: c.Origin, Trx: &protobufcompiled.TrxMsgGossip{Trx: protoTx(&tx)}})
		n.mu.Lock()
		n.events = nil
		n.mu.Unlock()
	}
	if !n.settle() {
		return "", "", nil, nil, "network did not settle after origin"
	}
	bound := 4*degreeSum(adj) + 12
	firstIn := map[int]*vmsg{}
	for step := 0; ; step++ {
		fl := n.sortedInflight()
		if len(fl) == 0 {
			// before concluding that the item is done, make sure by the goroutine profile that nothing is still on its way
			if !n.settle() {
				return "", "", taken, avail, "network did not settle"
			}
			if fl = n.sortedInflight(); len(fl) == 0 {
				break
			}
		}
		if step > bound {
			return "does-not-terminate", fmt.Sprintf("item still has %d messages in flight after %d deliveries on graph {%s} (sum of degrees %d)", len(fl), step, c.Graph, degreeSum(adj)), taken, avail, ""
		}
		idx := choose(step, len(fl))
		taken, avail = append(taken, idx), append(avail, len(fl))
		m := fl[idx]
		n.take(m)
		baseline := runtime.NumGoroutine()
		if evil[m.To] {
			n.adversary(c, m, forge, hv, item)
		} else {
			if _, ok := firstIn[m.To]; !ok {
				firstIn[m.To] = m
			}
			if err := n.deliver(m); err != nil && (sim.IsPanic(err) || err == sim.ErrStuck) {
				if err == sim.ErrStuck {
					// the watchdog alone is wall clock: a verdict only if the profiles show the node parked for good
					if os.Getenv("VERIF_DEBUG") != "" {
						var sb strings.Builder
						for _, g := range sim.Goroutines() {
							if strings.Contains(g.Stack, "verif/harness") || strings.Contains(g.Stack, "Computantis/src/gossip") {
								sb.WriteString(g.Stack + "\n\n")
							}
						}
						os.WriteFile(fmt.Sprintf("/tmp/c11stuck-%d.txt", shard()), []byte(sb.String()), 0o644)
					}
					ok, stacks := sim.ConfirmStuck(5, 400*time.Millisecond)
					if !ok {
						return "", "", taken, avail, "gossip handler outlived the watchdog while the node was still progressing"
					}
					return "handler-failed", fmt.Sprintf("gossip handler of node %d never returned; every goroutine inside the nodes is parked, unchanged over 5 profiles:\n%s", m.To, stacks), taken, avail, ""
				}
				return "handler-failed", fmt.Sprintf("gossip handler of node %d: %v", m.To, err), taken, avail, ""
			}
			if step == c.DupAt {
				late := c.Late && c.Kind == "vrx" && n.nodes[m.To].flash != nil
				if late {
					// first let the network finish with the original, then the copy arrives "after the window"
					if !n.settleFast(baseline) {
						return "", "", taken, avail, "network did not settle"
					}
					n.nodes[m.To].flash.forget.Store(true)
				}
				if c.Flood > 0 && !late {
					n.flood(m.To, c.Flood)
				}
				n.deliver(m) // a duplicated message
				if late {
					if !n.settleFast(baseline) {
						n.nodes[m.To].flash.forget.Store(false)
						return "", "", taken, avail, "network did not settle"
					}
					n.nodes[m.To].flash.forget.Store(false)
				}
			}
		}
		if !n.settleFast(baseline) {
			return "", "", taken, avail, "network did not settle"
		}
	}
	// ---- judge ----
	n.mu.Lock()
	events := append([]vevent(nil), n.events...)
	n.mu.Unlock()
	if c.Kind == "chain2" {
		defer func() {
			// bring the network back to uniform ledgers for the next item
			for _, vn := range n.nodes {
				for k := 0; k < 10 && len(sim.ParkedList(vn.book)) > 0; k++ {
					vn.book.VerifRetryOne(bg)
				}
			}
			n.syncLedgers()
		}()
		for _, h := range chain {
			admitAt := map[int]int{}
			for _, e := range events {
				if e.Hash == h && e.Kind == "admit" {
					if _, ok := admitAt[e.Node]; !ok {
						admitAt[e.Node] = e.Seq
					}
				}
			}
			for _, e := range events {
				if e.Hash != h || e.Kind != "send" || e.Node == c.Origin {
					continue
				}
				if as, ok := admitAt[e.Node]; !ok || e.Seq < as {
					return "forwarded-before-accepting", fmt.Sprintf("node %d signed and forwarded vertex %x to node %d although its own ledger had not accepted it (it arrived before its parent; graph {%s}, origin %d, order %v)", e.Node, h[:4], e.To, c.Graph, c.Origin, taken), taken, avail, ""
				}
			}
		}
		return "", "", taken, avail, ""
	}
	sends := map[[2]int]int{}
	firstSend := map[int]int{}
	admits := map[int]int{}
	admitSeq := map[int]int{}
	total := 0
	for _, e := range events {
		if e.Hash != item {
			continue
		}
		switch e.Kind {
		case "send":
			if evil[e.Node] {
				continue
			}
			sends[[2]int{e.Node, e.To}]++
			total++
			if _, ok := firstSend[e.Node]; !ok {
				firstSend[e.Node] = e.Seq
			}
		case "admit":
			admits[e.Node]++
			if _, ok := admitSeq[e.Node]; !ok {
				admitSeq[e.Node] = e.Seq
			}
		}
	}
	if c.Kind == "badvrx" || c.Kind == "badtrx" {
		if total > 0 {
			return "invalid-item-forwarded", fmt.Sprintf("an item with a broken signature injected at node %d was forwarded %d times", c.Origin, total), taken, avail, ""
		}
		if c.Kind == "badvrx" {
			for i := range n.nodes {
				if admits[i] > 0 {
					return "invalid-item-admitted", fmt.Sprintf("node %d admitted a vertex with a broken sealing signature", i), taken, avail, ""
				}
			}
		} else {
			for i, vn := range n.nodes {
				if c11Listed(vn, item, issuer.Addr)+c11Listed(vn, item, receiver.Addr) > 0 {
					return "invalid-item-admitted", fmt.Sprintf("node %d cached an awaiting transaction with a broken issuer signature", i), taken, avail, ""
				}
			}
		}
		return "", "", taken, avail, ""
	}
	honestReach := map[int]bool{}
	{
		stack := []int{c.Origin}
		honestReach[c.Origin] = true
		for len(stack) > 0 {
			x := stack[len(stack)-1]
			stack = stack[:len(stack)-1]
			for y := 0; y < c.N; y++ {
				if adj[x][y] && !evil[y] && !honestReach[y] {
					honestReach[y] = true
					stack = append(stack, y)
				}
			}
		}
	}
	for i, vn := range n.nodes {
		if evil[i] {
			continue
		}
		mustHave := honestReach[i] || firstIn[i] != nil
		if c.Kind == "vrx" || c.Kind == "confirm" {
			_, rerr := vn.book.ReadVertex(bg, item)
			has := rerr == nil
			if i != c.Origin {
				if admits[i] > 1 {
					return "admitted-twice", fmt.Sprintf("node %d admitted the vertex %d times (graph {%s} origin %d order %v dup at %d)", i, admits[i], c.Graph, c.Origin, taken, c.DupAt), taken, avail, ""
				}
				if mustHave && (admits[i] != 1 || !has) {
					sg := "not-delivered"
					if evil[c.Evil] && c.Evil >= 0 {
						sg = "delivery-suppressed-by-relay"
					}
					return sg, fmt.Sprintf("node %d never admitted the vertex accepted at node %d (graph {%s}, delivery order %v, dup at %d, relay %d); admitted %d times, in ledger: %v", i, c.Origin, c.Graph, taken, c.DupAt, c.Evil, admits[i], has), taken, avail, ""
				}
				if fs, ok := firstSend[i]; ok {
					if as, ok2 := admitSeq[i]; !ok2 || fs < as {
						return "forwarded-before-accepting", fmt.Sprintf("node %d forwarded the vertex before its own ledger accepted it", i), taken, avail, ""
					}
				}
			} else if !has {
				return "origin-lost-item", "origin does not hold its own vertex", taken, avail, ""
			}
		} else {
			li, lr := c11Listed(vn, item, issuer.Addr), c11Listed(vn, item, receiver.Addr)
			if li > 1 || lr > 1 {
				return "admitted-twice", fmt.Sprintf("node %d lists the awaiting transaction %d/%d times", i, li, lr), taken, avail, ""
			}
			if mustHave && (li != 1 || lr != 1) {
				// quiescence was judged from the goroutine count; before calling an item lost, let the stricter profile-based
				// settle confirm that nothing of the nodes is still on its way (a loaded machine starts goroutines late)
				n.settle()
				time.Sleep(50 * time.Millisecond)
				li, lr = c11Listed(vn, item, issuer.Addr), c11Listed(vn, item, receiver.Addr)
				if li == 1 && lr == 1 {
					continue
				}
				sg := "not-delivered"
				if c.Evil >= 0 {
					sg = "delivery-suppressed-by-relay"
				}
				return sg, fmt.Sprintf("node %d does not list the awaiting transaction accepted at node %d exactly once for issuer and receiver (%d/%d) (graph {%s}, order %v, relay %d)", i, c.Origin, li, lr, c.Graph, taken, c.Evil), taken, avail, ""
			}
		}
	}
	for k, cnt := range sends {
		// with an adversarial relay an extra burst is possible (an item sent back to its origin stripped of the
		// origin's entry is forwarded once more): amplification, not suppression - outside C12's statement
		if cnt > 1 && c.Evil < 0 {
			return "forwarded-twice-to-one-peer", fmt.Sprintf("node %d sent the item %d times to node %d (graph {%s} order %v dup at %d)", k[0], cnt, k[1], c.Graph, taken, c.DupAt), taken, avail, ""
		}
	}
	if total > degreeSum(adj) && c.Evil < 0 {
		return "too-many-messages", fmt.Sprintf("%d messages for one item, bound is the sum of degrees %d", total, degreeSum(adj)), taken, avail, ""
	}
	// no message addressed to a node listed as a verified gossiper of that very message
	n.mu.Lock()
	evs := append([]vevent(nil), n.events...)
	n.mu.Unlock()
	_ = evs
	for _, m := range n.sentLog(item) {
		if evil[m.From] {
			continue
		}
		vs := verifiedSet(m)
		if vs[n.nodes[m.To].key.Addr] {
			return "sent-to-listed-gossiper", fmt.Sprintf("node %d sent the item to node %d although the message lists node %d as a verified gossiper", m.From, m.To, m.To), taken, avail, ""
		}
		if !vs[n.nodes[m.From].key.Addr] {
			return "own-signature-missing", fmt.Sprintf("node %d forwarded the item without its own valid gossiper entry", m.From), taken, avail, ""
		}
	}
	// C12 (3): an honest node skips a peer only if that peer's entry verifies for this item
	for i := range n.nodes {
		if evil[i] || i == c.Origin || firstIn[i] == nil || admits[i] == 0 && (c.Kind == "vrx" || c.Kind == "confirm") {
			continue
		}
		vs := verifiedSet(firstIn[i])
		for p := 0; p < c.N; p++ {
			if !adj[i][p] || sends[[2]int{i, p}] > 0 {
				continue
			}
			if !vs[n.nodes[p].key.Addr] {
				return "peer-skipped-without-valid-entry", fmt.Sprintf("node %d did not forward the item to its peer %d although the message it processed carries no valid entry of node %d for this item (relay %d, graph {%s}, order %v)", i, p, p, c.Evil, c.Graph, taken), taken, avail, ""
			}
		}
	}
	return "", "", taken, avail, ""
}

func c11Listed(vn *vnode, h ref.Hash, addr string) int {
	trxs, _ := vn.hip.ReadTransactions(addr)
	c := 0
	for _, t := range trxs {
		if t.Hash == h {
			c++
		}
	}
	return c
}

// sentLog keeps every posted message of the current item (for list checks).
func (n *vnet) sentLog(item ref.Hash) []*vmsg {
	n.mu.Lock()
	defer n.mu.Unlock()
	var out []*vmsg
	for _, m := range n.sent {
		if m.hash() == item {
			out = append(out, m)
		}
	}
	return out
}

// adversary: the relay at c.Evil received m. It forwards the intact item to drawn neighbours with forged lists.
func (n *vnet) adversary(c c11Case, m *vmsg, forge func(string, int) int, hv *harvest, item ref.Hash) {
	adj := n.adj
	evilKey := n.nodes[c.Evil].key
	// harvest genuine entries for later items
	for _, g := range m.gossipers() {
		if g != nil {
			hv.byAddr[g.Address] = append(hv.byAddr[g.Address], g)
		}
	}
	for y := 0; y < c.N; y++ {
		if !adj[c.Evil][y] || y == c.Evil {
			continue
		}
		times := forge(fmt.Sprintf("times->%d", y), 3) // 0,1,2 copies
		for k := 0; k < times; k++ {
			var list []*protobufcompiled.Gossiper
			victim := n.nodes[y].key.Addr
			nEntries := 1 + forge("entries", 4)
			for e := 0; e < nEntries; e++ {
				switch forge("entryKind", 10) {
				case 9: // the adversary's own valid entry, followed by a copy of it (same digest, same signature) under the victim's address
					d, s := evilKey.Sign(append([]byte(evilKey.Addr), item[:]...))
					list = append(list, &protobufcompiled.Gossiper{Address: evilKey.Addr, Digest: d[:], Signature: s},
						&protobufcompiled.Gossiper{Address: victim, Digest: append([]byte(nil), d[:]...), Signature: append([]byte(nil), s...)})
				case 6: // malformed: the victim's address with a digest of the wrong length (a node that filters such entries must not let the filtering shift anything)
					list = append(list, &protobufcompiled.Gossiper{Address: victim, Digest: fill([]int{0, 1, 31, 33}[forge("badDigestLen", 4)], "rand", byte(e)), Signature: fill(64, "rand", byte(e+3))})
				case 7: // malformed: an entry without address, or no entry at all
					if forge("nilEntry", 2) == 0 {
						list = append(list, nil)
					} else {
						list = append(list, &protobufcompiled.Gossiper{Digest: fill(32, "rand", byte(e)), Signature: fill(64, "rand", byte(e+5))})
					}
				case 8: // the adversary's own valid entry for this item
					d, s := evilKey.Sign(append([]byte(evilKey.Addr), item[:]...))
					list = append(list, &protobufcompiled.Gossiper{Address: evilKey.Addr, Digest: d[:], Signature: s})
				case 0: // garbage of correct field lengths
					list = append(list, &protobufcompiled.Gossiper{Address: victim, Digest: fill(32, "rand", byte(e)), Signature: fill(64, "rand", byte(e+9))})
				case 1: // an honest node's genuine entry for ANOTHER item
					var addrs []string
					for a := range hv.byAddr {
						addrs = append(addrs, a)
					}
					if len(addrs) > 0 {
						sortStrings(addrs)
						a := addrs[forge("harvestAddr", len(addrs))]
						es := hv.byAddr[a]
						list = append(list, es[forge("harvestIdx", len(es))])
					}
				case 2: // the victim's address with the adversary's signature
					d, s := evilKey.Sign(append([]byte(victim), item[:]...))
					list = append(list, &protobufcompiled.Gossiper{Address: victim, Digest: d[:], Signature: s})
				case 3: // the victim's address with an empty signature
					d, _ := evilKey.Sign(append([]byte(victim), item[:]...))
					list = append(list, &protobufcompiled.Gossiper{Address: victim, Digest: d[:]})
				case 4: // a valid entry of a sybil key
					sy := ref.NewKey("sybil", []byte{byte(e), byte(k)})
					d, s := sy.Sign(append([]byte(sy.Addr), item[:]...))
					list = append(list, &protobufcompiled.Gossiper{Address: sy.Addr, Digest: d[:], Signature: s})
				case 5: // genuine entries that came with this very item
					list = append(list, m.gossipers()...)
				}
			}
			// names of the victim's OTHER peers, forged: tries to make the victim skip them
			if forge("nameOthers", 2) == 1 {
				for p := 0; p < c.N; p++ {
					if adj[y][p] && p != c.Evil {
						pa := n.nodes[p].key.Addr
						d, s := evilKey.Sign(append([]byte(pa), item[:]...))
						list = append(list, &protobufcompiled.Gossiper{Address: pa, Digest: d[:], Signature: s})
						if es := hv.byAddr[pa]; len(es) > 0 {
							list = append(list, es[forge("otherIdx", len(es))])
						}
					}
				}
			}
			out := &vmsg{From: c.Evil, To: y}
			if m.Vrx != nil {
				out.Vrx = &protobufcompiled.VrxMsgGossip{Vertex: m.Vrx.Vertex, Gossipers: list}
			} else {
				out.Trx = &protobufcompiled.TrxMsgGossip{Trx: m.Trx.Trx, Gossipers: list}
			}
			n.post(out)
		}
	}
}

// flood pushes k fresh awaiting transactions through node d's handler, each carrying valid entries of EVERY node for that
// transaction (so d remembers the hash but neither stores nor forwards anything): other traffic a busy node sees between
// two copies of the item under test. All of it happens well inside the suppression window.
func (n *vnet) flood(d, k int) {
	for i := 0; i < k; i++ {
		n.trxCtr++
		issuer, receiver := ref.NewKey("c11-flood-issuer", []byte(fmt.Sprint(n.trxCtr))), ref.NewKey("c11-flood-receiver", []byte(fmt.Sprint(n.trxCtr)))
		tx := ref.MakeTx("flood", spice.Melange{}, sim.DataBytes(9, int64(n.trxCtr)), receiver.Addr, issuer, n.w.Epoch.Add(time.Duration(n.trxCtr)*time.Second))
		var list []*protobufcompiled.Gossiper
		for _, vn := range n.nodes {
			dg, sg := vn.key.Sign(append([]byte(vn.key.Addr), tx.Hash[:]...))
			list = append(list, &protobufcompiled.Gossiper{Address: vn.key.Addr, Digest: dg[:], Signature: sg})
		}
		msg := &protobufcompiled.TrxMsgGossip{Trx: protoTx(&tx), Gossipers: list}
		sim.GuardT(sim.CallTimeout, func() error { n.nodes[d].g.Server().GossipTrx(bg, msg); return nil })
	}
}

func sortStrings(s []string) {
	for i := 1; i < len(s); i++ {
		for j := i; j > 0 && s[j] < s[j-1]; j-- {
			s[j], s[j-1] = s[j-1], s[j]
		}
	}
}

// ---------- C11 ----------

func TestC11(t *testing.T) {
	st := newStats(t, "C11", "cases = (connected topology, origin, item kind in {vertex created at the origin, awaiting transaction, vertex / transaction with a broken signature}, delivery order of the in-flight messages, optional duplicated delivery - for vertices also a duplicate arriving after the receiver's suppression window has elapsed (switchable wrapper around the real recent-hash memory), or a duplicate separated from the original by up to 1100 other items passing through the receiver) on a virtual network of real gossip nodes over real ledgers and caches; every connected labelled graph on 2-4 nodes x every origin with depth-first enumeration of delivery orders (complete unless the per-(graph,origin) cap is hit), rapid-drawn graphs on 5-6 nodes and orders; oracle from the harness's own log of stub sends and handler calls: every node admits exactly once, at most one forward per peer, never to a verified gossiper of that message (verified by the harness), forward only after own acceptance, messages <= sum of degrees, in-flight set drains; non-trivial = >=3 nodes and the graph has a cycle or a path of >=2 hops; enumerated schedules distinct by construction, random by fingerprint")
	sim.Chdir(workDir(t))
	sh, nsh := shard(), nshards()
	hv := &harvest{byAddr: map[string][]*protobufcompiled.Gossiper{}}
	nets := map[int]*vnet{}
	getNet := func(k int) *vnet {
		if n, ok := nets[k]; ok {
			return n
		}
		n, err := newVnet(k, fmt.Sprintf("c11-%d-%d-%d", shard(), k, len(nets)))
		if err != nil {
			st.inconclusive("network: " + err.Error())
			return nil
		}
		nets[k] = n
		return n
	}
	defer func() {
		for _, n := range nets {
			n.close()
		}
	}()
	nontrivialGraph := func(adj [][]bool) bool { return len(adj) >= 3 }
	judge := func(c c11Case, sig, msg string, enumerated bool, taken []int) bool {
		st.eval(1)
		adj := parseGraph(c.N, c.Graph)
		if nontrivialGraph(adj) {
			if enumerated {
				st.enumNontrivial(1)
			} else {
				st.nontrivial(fp64(c.N, c.Graph, c.Origin, c.Kind, fmt.Sprint(taken), c.DupAt))
			}
		}
		st.label("kind:" + c.Kind)
		if c.Flood > 0 {
			st.label(fmt.Sprintf("duplicate-after-%d-other-items", c.Flood))
		}
		if c.Late {
			st.label("duplicate-after-the-suppression-window")
		}
		if sig != "" {
			c.Order = taken
			bad := false
			if enumerated {
				bad = st.reportOnce(sig, msg, c)
			} else {
				bad = st.report(sig, msg, c)
			}
			// the network is no longer uniform: rebuild
			if n := nets[c.N]; n != nil {
				n.close()
				delete(nets, c.N)
			}
			return !bad
		}
		return true
	}
	t.Run("enum", func(t *testing.T) {
		failed := false
		capOrders := envInt("VERIF_C11_CAP", 24)
		idx := 0
		allComplete := true
		for k := 2; k <= 4; k++ {
			for _, adj := range connectedGraphs(k) {
				for origin := 0; origin < k; origin++ {
					for _, kind := range []string{"vrx", "trx", "confirm", "chain2"} {
						idx++
						if idx%nsh != sh {
							continue
						}
						gs := graphString(adj)
						var prefix []int
						orders := 0
						capOrders := capOrders
						if kind == "chain2" {
							capOrders = max(6, capOrders/4) // twice the messages per schedule
						}
						for {
							n := getNet(k)
							if n == nil {
								return
							}
							c := c11Case{N: k, Graph: gs, Origin: origin, Kind: kind, DupAt: -1, Evil: -1}
							if orders%5 == 4 {
								c.DupAt = orders % 3
								c.Late = kind == "vrx" && (orders/3)%2 == 1
								if orders%35 == 34 {
									c.Flood = 1100 // more than any power-of-two housekeeping step below 2^11 of the recent-hash memory
								}
							}
							sig, msg, taken, avail, inc := n.runGossip(c, func(step, av int) int {
								if step < len(prefix) && prefix[step] < av {
									return prefix[step]
								}
								return 0
							}, nil, hv)
							if inc != "" {
								st.note("inconclusive: %s", inc)
								st.label("inconclusive-case")
								n.close()
								delete(nets, k)
								break
							}
							if !judge(c, sig, msg, true, taken) {
								failed = true
								break
							}
							orders++
							i := len(taken) - 1
							for i >= 0 && taken[i]+1 >= avail[i] {
								i--
							}
							if i < 0 {
								break
							}
							prefix = append(append([]int{}, taken[:i]...), taken[i]+1)
							if orders >= capOrders {
								allComplete = false
								st.label("order-enumeration-capped")
								break
							}
						}
						st.labelN(fmt.Sprintf("orders-enumerated:n=%d", k), int64(orders))
					}
					// negative items
					for _, kind := range []string{"badvrx", "badtrx"} {
						idx++
						if idx%nsh != sh {
							continue
						}
						n := getNet(k)
						if n == nil {
							return
						}
						c := c11Case{N: k, Graph: graphString(adj), Origin: origin, Kind: kind, DupAt: -1, Evil: -1}
						sig, msg, taken, _, inc := n.runGossip(c, func(step, av int) int { return 0 }, nil, hv)
						if inc == "" && !judge(c, sig, msg, true, taken) {
							failed = true
						}
					}
				}
			}
		}
		st.Exhaustive = allComplete
		st.sample(c11Case{N: 4, Graph: "0-1,0-2,1-3,2-3", Origin: 0, Kind: "vrx", Order: []int{1, 0, 1, 0}, DupAt: -1, Evil: -1})
		if failed {
			t.Errorf("C11: violations in enumeration")
		}
	})
	t.Run("random", func(t *testing.T) {
		rapid.Check(t, func(rt *rapid.T) {
			if pastSoftDeadline(st) {
				return
			}
			k := rapid.IntRange(3, 6).Draw(rt, "n")
			adj := make([][]bool, k)
			for i := range adj {
				adj[i] = make([]bool, k)
			}
			// random spanning tree + extra edges: connected by construction
			for i := 1; i < k; i++ {
				j := rapid.IntRange(0, i-1).Draw(rt, "parent")
				adj[i][j], adj[j][i] = true, true
			}
			extra := rapid.IntRange(0, k).Draw(rt, "extra")
			for e := 0; e < extra; e++ {
				a, b := rapid.IntRange(0, k-1).Draw(rt, "a"), rapid.IntRange(0, k-1).Draw(rt, "b")
				if a != b {
					adj[a][b], adj[b][a] = true, true
				}
			}
			c := c11Case{N: k, Graph: graphString(adj), Origin: rapid.IntRange(0, k-1).Draw(rt, "origin"),
				Kind: rapid.SampledFrom([]string{"vrx", "vrx", "trx", "confirm", "confirm", "chain2", "chain2", "badvrx", "badtrx"}).Draw(rt, "kind"), DupAt: rapid.IntRange(-1, 6).Draw(rt, "dupAt"), Evil: -1}
			c.Late = c.Kind == "vrx" && c.DupAt >= 0 && rapid.Bool().Draw(rt, "late")
			if c.DupAt >= 0 && !c.Late && rapid.IntRange(0, 5).Draw(rt, "floodOn") == 0 {
				c.Flood = rapid.SampledFrom([]int{3, 40, 1100}).Draw(rt, "flood")
			}
			n := getNet(k)
			if n == nil {
				rt.Skip("no network")
			}
			sig, msg, taken, _, inc := n.runGossip(c, func(step, av int) int { return rapid.IntRange(0, av-1).Draw(rt, "pick") }, nil, hv)
			if inc != "" {
				st.note("inconclusive: %s", inc)
				st.label("inconclusive-case")
				n.close()
				delete(nets, k)
				return
			}
			if !judge(c, sig, msg, false, taken) {
				rt.Fatalf("C11 violated (%s): %s", sig, msg)
			}
			c.Order = taken
			st.sample(c)
		})
	})
}

// ---------- C12 ----------

func TestC12(t *testing.T) {
	st := newStats(t, "C12", "cases = C11's virtual network with ONE node replaced by an adversarial relay the harness plays: on receipt it forwards the intact item 0-2 times to each neighbour with a gossiper list assembled from garbage of correct lengths, malformed entries (wrong digest length, no address, nil) placed before valid ones, the adversary's own valid entry repeated under the victim's address, honest nodes' genuine entries harvested from OTHER items, the victim's or its peers' addresses signed by the adversary or unsigned, valid sybil entries, and the genuine entries of this item; every connected graph on 3-4 nodes x relay position x origin with drawn orders and forgeries, sampled graphs on 5 nodes; oracle = every honest node with an honest path to the origin (or that received any copy) admits exactly once, and an honest node skips a peer only if the message it processed carries that peer's valid entry for this item (verified by the harness); non-trivial = the adversary lies on a path from the origin and forged >= 1 entry; distinct by (graph, relay, origin, order, forgery choices) fingerprint")
	sim.Chdir(workDir(t))
	hv := &harvest{byAddr: map[string][]*protobufcompiled.Gossiper{}}
	nets := map[int]*vnet{}
	defer func() {
		for _, n := range nets {
			n.close()
		}
	}()
	type gcase struct {
		k      int
		adj    [][]bool
		evil   int
		origin int
	}
	var all []gcase
	for k := 3; k <= 4; k++ {
		for _, adj := range connectedGraphs(k) {
			for evil := 0; evil < k; evil++ {
				for origin := 0; origin < k; origin++ {
					if origin != evil {
						all = append(all, gcase{k, adj, evil, origin})
					}
				}
			}
		}
	}
	caseNo := 0
	rapid.Check(t, func(rt *rapid.T) {
		if pastSoftDeadline(st) {
			return
		}
		caseNo++
		var g gcase
		if rapid.IntRange(0, 4).Draw(rt, "big") == 0 {
			k := 5
			adj := make([][]bool, k)
			for i := range adj {
				adj[i] = make([]bool, k)
			}
			for i := 1; i < k; i++ {
				j := rapid.IntRange(0, i-1).Draw(rt, "parent")
				adj[i][j], adj[j][i] = true, true
			}
			for e := 0; e < rapid.IntRange(0, 4).Draw(rt, "extra"); e++ {
				a, b := rapid.IntRange(0, k-1).Draw(rt, "a"), rapid.IntRange(0, k-1).Draw(rt, "b")
				if a != b {
					adj[a][b], adj[b][a] = true, true
				}
			}
			g = gcase{k, adj, rapid.IntRange(0, k-1).Draw(rt, "evil"), 0}
			g.origin = (g.evil + 1 + rapid.IntRange(0, k-2).Draw(rt, "origin")) % k
		} else {
			// walk the complete list of (graph, relay, origin) over the shards and cases
			i := rapid.IntRange(0, len(all)-1).Draw(rt, "gcase")
			g = all[(i+caseNo*nshards()+shard())%len(all)]
		}
		n, ok := nets[g.k]
		if !ok {
			var err error
			n, err = newVnet(g.k, fmt.Sprintf("c12-%d-%d-%d", shard(), g.k, caseNo))
			if err != nil {
				rt.Skip("network")
			}
			nets[g.k] = n
		}
		// a warm-up item without forgery lets the relay harvest genuine entries of other items
		warm := c11Case{N: g.k, Graph: graphString(g.adj), Origin: g.origin, Kind: "vrx", DupAt: -1, Evil: g.evil}
		n.runGossip(warm, func(step, av int) int { return 0 }, func(string, int) int { return 0 }, hv)
		repair := c11Case{N: g.k, Graph: graphString(completeGraph(g.k)), Origin: g.origin, Kind: "vrx", DupAt: -1, Evil: -1}
		_ = repair
		n.syncLedgers()
		c := c11Case{N: g.k, Graph: graphString(g.adj), Origin: g.origin, Kind: rapid.SampledFrom([]string{"vrx", "vrx", "trx"}).Draw(rt, "kind"), DupAt: -1, Evil: g.evil}
		forged := 0
		sig, msg, taken, _, inc := n.runGossip(c, func(step, av int) int { return rapid.IntRange(0, av-1).Draw(rt, "pick") },
			func(label string, k int) int {
				forged++
				v := rapid.IntRange(0, k-1).Draw(rt, label)
				c.Forge = append(c.Forge, v)
				return v
			}, hv)
		if inc != "" {
			st.note("inconclusive: %s", inc)
			st.label("inconclusive-case")
			n.close()
			delete(nets, g.k)
			return
		}
		st.eval(1)
		c.Order = taken
		// the relay lies on some path from the origin iff it is adjacent to the honest-reachable part or the origin
		if forged > 0 {
			st.nontrivial(fp64(c.Graph, c.Evil, c.Origin, c.Kind, fmt.Sprint(taken), fmt.Sprint(c.Forge)))
			st.sample(c)
		}
		if !isConnected(g.adj, map[int]bool{g.evil: true}) {
			st.label("relay-is-cut-vertex")
		}
		if sig != "" {
			bad := st.report(sig, msg, c)
			n.close()
			delete(nets, g.k)
			if bad {
				rt.Fatalf("C12 violated (%s): %s", sig, msg)
			}
			return
		}
		n.syncLedgers()
	})
}

func completeGraph(k int) [][]bool {
	adj := make([][]bool, k)
	for i := range adj {
		adj[i] = make([]bool, k)
		for j := range adj[i] {
			adj[i][j] = i != j
		}
	}
	return adj
}

// syncLedgers hands every archived vertex to every node (parents first) so that all ledgers are equal again after a
// case in which the relay withheld the item from nodes behind it.
func (n *vnet) syncLedgers() {
	ord := n.w.Arch.Order
	if len(ord) > 12 {
		ord = ord[len(ord)-12:] // older items were synchronised after their own case
	}
	for i := range n.nodes {
		for _, h := range ord {
			v := n.w.Arch.V[h]
			if _, err := n.nodes[i].book.ReadVertex(bg, h); err != nil {
				c := sim.CloneVertex(v)
				n.nodes[i].book.AddLeaf(bg, &c)
			}
		}
	}
}
