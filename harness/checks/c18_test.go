package checks

import (
	"context"
	"fmt"
	"os"
	"path/filepath"
	"sort"
	"strings"
	"sync"
	"sync/atomic"
	"testing"
	"time"

	"github.com/bartossh/Computantis/src/accountant"
	"github.com/bartossh/Computantis/src/protobufcompiled"
	"github.com/bartossh/Computantis/src/spice"
	"pgregory.net/rapid"

	"verif/harness/ref"
	"verif/harness/sim"
)

// C18 — concurrent use of a node is free of data races. Built with -race; GORACE=halt_on_error=0 log_path=...
// The test parses the detector's reports itself and attributes each to the pair of innermost repository functions.

type c18Plan struct {
	Goroutines int      `json:"goroutines"`
	Scripts    []string `json:"scripts"` // op kind per goroutine
	Millis     int      `json:"millis"`
	Deep       bool     `json:"deep"`      // >1000 vertices first, so that truncation can run
	RealLoop   bool     `json:"real_loop"` // node configured with Truncate=2000 and filled to just below weight 3001: the node's OWN truncation loop fires while the workload runs
}

var c18Ops = []string{"propose", "gossip-feed", "orphans", "balance", "history", "read-tx", "read-vertex", "stream", "retry", "truncate", "gossip-handler", "cache", "snapshot-read"}

func c18Run(p c18Plan, seed string) (opsDone map[string]int64, inconclusive string) {
	var trunc uint64
	if p.RealLoop {
		trunc = 2000
	}
	s, err := newSvcT(seed, 4, 4, true, 60, trunc)
	if err != nil {
		if s != nil {
			s.close()
		}
		return nil, "setup: " + err.Error()
	}
	defer s.close()
	w := s.w
	book := s.book
	// material produced up front by the harness (single threaded): vertices sealed by a rogue wallet forming a chain
	// on the current tip, and orphan pairs
	if p.Deep && !p.RealLoop {
		if err := w.Filler(0, 1010, false); err != nil {
			return nil, "filler: " + err.Error()
		}
	}
	if p.RealLoop {
		// the loop truncates once an accepted vertex weighs more than Truncate+1000: stop a few vertices short so that
		// the proposals of the concurrent phase cross the mark
		for i := 0; i < 40; i++ {
			if err := w.Filler(0, 100, false); err != nil {
				return nil, "filler: " + err.Error()
			}
			sn, err := w.Snapshot(w.Nodes[0])
			if err != nil {
				return nil, err.Error()
			}
			if sn.Raw.Weight >= 2985 {
				break
			}
			if sn.Raw.Weight > 2880 {
				if err := w.Filler(0, int(2990-sn.Raw.Weight), false); err != nil {
					return nil, "filler: " + err.Error()
				}
				break
			}
		}
	}
	snap, err := w.Snapshot(w.Nodes[0])
	if err != nil {
		return nil, err.Error()
	}
	tip := ref.SortedHashes(snap.Tips())[0]
	var feed []*accountant.Vertex
	prev := tip
	for i := 0; i < 400; i++ {
		v := w.Craft(w.RogueWallet(0), w.MakeTx(1+i%3, 1+(i+1)%3, spice.New(0, 3), 0), prev, prev, 0)
		feed = append(feed, v)
		prev = v.Hash
	}
	var orphans [][2]*accountant.Vertex
	for i := 0; i < 200; i++ {
		par := w.Craft(w.RogueWallet(1), w.MakeTx(1, 2, spice.Melange{}, 5), tip, tip, 0)
		ch := w.Craft(w.RogueWallet(1), w.MakeTx(2, 3, spice.Melange{}, 5), par.Hash, par.Hash, 0)
		orphans = append(orphans, [2]*accountant.Vertex{par, ch})
	}
	var txHashes, oldHashes []ref.Hash
	for h, v := range snap.Live {
		txHashes = append(txHashes, v.Transaction.Hash)
		oldHashes = append(oldHashes, h) // vertices that exist before the concurrent phase: a truncation will move most of them
	}
	ctx, cancel := context.WithTimeout(context.Background(), time.Duration(p.Millis)*time.Millisecond)
	defer cancel()
	done := map[string]*atomic.Int64{}
	for _, k := range c18Ops {
		done[k] = &atomic.Int64{}
	}
	var feedIdx, orphanIdx, sinkInt atomic.Int64
	var truncOnce sync.Once
	var wg sync.WaitGroup
	for gi, script := range p.Scripts {
		wg.Add(1)
		go func(gi int, script string) {
			defer wg.Done()
			defer func() { recover() }()
			ctr := 0
			for ctx.Err() == nil {
				ctr++
				switch script {
				case "propose":
					tx := ref.MakeTx(fmt.Sprintf("c18 %d %d", gi, ctr), spice.New(0, 2), nil, w.Wallets[2].Addr, w.Wallets[1+gi%3], w.Epoch.Add(time.Duration(gi*1_000_000+ctr)*time.Microsecond))
					book.CreateLeaf(ctx, &tx)
				case "gossip-feed":
					i := int(feedIdx.Add(1)) - 1
					if i < len(feed) {
						c := sim.CloneVertex(feed[i])
						book.AddLeaf(ctx, &c)
					} else {
						time.Sleep(time.Millisecond)
					}
				case "orphans":
					i := int(orphanIdx.Add(1)) - 1
					if i < len(orphans) {
						c := sim.CloneVertex(orphans[i][1])
						book.AddLeaf(ctx, &c)
						time.Sleep(time.Duration(gi%3) * time.Millisecond)
						pv := sim.CloneVertex(orphans[i][0])
						book.AddLeaf(ctx, &pv)
					} else {
						time.Sleep(time.Millisecond)
					}
				case "balance":
					book.CalculateBalance(ctx, w.Wallets[1+ctr%3].Addr)
				case "history":
					book.ReadDAGTransactionsByAddress(ctx, w.Wallets[1+ctr%3].Addr)
				case "read-tx":
					book.ReadTransactionByHash(ctx, txHashes[ctr%len(txHashes)])
				case "read-vertex":
					if ctr%2 == 0 && len(oldHashes) > 0 {
						if v, err := book.ReadVertex(ctx, oldHashes[(ctr/2)%len(oldHashes)]); err == nil {
							sinkInt.Add(v.CreatedAt.UnixNano() + v.Transaction.CreatedAt.UnixNano() + int64(v.Weight))
						}
					} else {
						book.ReadVertex(ctx, feed[ctr%len(feed)].Hash)
					}
				case "stream":
					n := 0
					for v := range book.StreamDAG(ctx) {
						n++
						if v != nil {
							// a joining node reads what it is handed, after the serving node has released its lock
							sinkInt.Add(v.CreatedAt.UnixNano() + v.Transaction.CreatedAt.UnixNano() + int64(v.Weight) + int64(len(v.Signature)))
						}
					}
				case "retry":
					book.VerifRetryOne(ctx)
					time.Sleep(time.Millisecond)
				case "truncate":
					if p.Deep {
						truncOnce.Do(func() {
							time.Sleep(40 * time.Millisecond) // let the readers touch the old vertices first: an unlocked read BEFORE the cut races with it too
							book.VerifTruncate(context.Background())
						})
					}
					time.Sleep(2 * time.Millisecond)
				case "gossip-handler":
					i := int(feedIdx.Add(1)) - 1
					if i < len(feed) {
						s.gossip.Server().GossipVrx(ctx, &protobufcompiled.VrxMsgGossip{Vertex: protoVertex(feed[i])})
					} else {
						time.Sleep(time.Millisecond)
					}
				case "cache":
					tx := ref.MakeTx(fmt.Sprintf("c18c %d %d", gi, ctr), spice.Melange{}, []byte{1, 2}, w.Wallets[2].Addr, w.Wallets[1], w.Epoch.Add(time.Duration(gi*1_000_000+ctr)*time.Microsecond))
					s.hip.SaveAwaitedTransaction(&tx)
					s.hip.ReadTransactions(w.Wallets[2].Addr)
					s.hip.RemoveAwaitedTransaction(tx.Hash, w.Wallets[2].Addr)
				case "snapshot-read":
					book.DagLoaded()
					book.Address()
					time.Sleep(200 * time.Microsecond)
				}
				done[script].Add(1)
			}
		}(gi, script)
	}
	wg.Wait()
	opsDone = map[string]int64{}
	if p.RealLoop {
		if sn, err := w.Snapshot(w.Nodes[0]); err == nil && len(sn.Stored) > 0 {
			opsDone["own-truncation-loop-fired"] = 1
		}
	}
	for k, v := range done {
		if n := v.Load(); n > 0 {
			opsDone[k] = n
		}
	}
	return opsDone, ""
}

// parseRaceReports reads the detector's log files and returns signature -> example report.
func parseRaceReports(dir string) map[string]string {
	out := map[string]string{}
	files, _ := filepath.Glob(filepath.Join(dir, "race.*"))
	for _, f := range files {
		b, err := os.ReadFile(f)
		if err != nil {
			continue
		}
		for _, rep := range strings.Split(string(b), "==================") {
			if !strings.Contains(rep, "WARNING: DATA RACE") {
				continue
			}
			// the two access stacks are the first two paragraphs; goroutine creation stacks follow
			paras := strings.Split(strings.TrimSpace(rep), "\n\n")
			var sites []string
			for _, para := range paras {
				head := strings.TrimSpace(para)
				if !(strings.HasPrefix(head, "WARNING: DATA RACE") || strings.HasPrefix(head, "Read at") || strings.HasPrefix(head, "Write at") ||
					strings.HasPrefix(head, "Previous read") || strings.HasPrefix(head, "Previous write") || strings.HasPrefix(head, "Previous atomic") || strings.HasPrefix(head, "Atomic")) {
					continue
				}
				site := ""
				for _, line := range strings.Split(para, "\n") {
					line = strings.TrimSpace(line)
					if strings.HasPrefix(line, "github.com/bartossh/Computantis/src/") {
						fn := strings.TrimPrefix(line, "github.com/bartossh/Computantis/src/")
						if i := strings.LastIndex(fn, "("); i > 0 {
							fn = fn[:i]
						}
						site = fn
						break
					}
				}
				if site != "" {
					sites = append(sites, site)
				}
				if len(sites) == 2 {
					break
				}
			}
			if len(sites) == 0 {
				continue // no repository frame in either access: third-party
			}
			hook := false
			for _, fn := range sites {
				if strings.Contains(fn, ".Verif") {
					hook = true // an access made by one of the harness's own verif-tagged hooks is not the node's concurrency
				}
			}
			if hook {
				continue
			}
			sort.Strings(sites)
			sig := "race:" + strings.Join(sites, "|")
			if _, ok := out[sig]; !ok {
				r := strings.TrimSpace(rep)
				if len(r) > 2500 {
					r = r[:2500]
				}
				out[sig] = r
			}
		}
	}
	return out
}

func TestC18(t *testing.T) {
	st := newStats(t, "C18", "cases = randomized concurrent workloads (6-24 goroutines, each looping one of: CreateLeaf, AddLeaf of a prepared chain, AddLeaf of orphans child-before-parent so the retry buffer is in use while its 2 s ticker runs, CalculateBalance, history, by-hash reads, StreamDAG with a consumer, the retry trigger, one real truncation of a >1000-vertex DAG, the gossip handler, the awaiting cache) for 0.7-3.2 s on a binary built with -race; oracle = the Go race detector's reports, parsed and attributed to the pair of innermost repository functions of the two conflicting accesses (reports without a repository frame are ignored); non-trivial = >=2 different operation kinds ran concurrently, one of them a writer; distinct by workload-script fingerprint")
	dir := workDir(t)
	sim.Chdir(dir)
	// rapid only GENERATES the workload plans here (Example with a seed derived from VERIF_SEED and the shard): once
	// the detector has reported a race, testing.T counts as failed and rapid would abort the whole check, so the
	// workloads run outside the library and the failing workload's plan is the replay unit.
	planGen := rapid.Custom(func(rt *rapid.T) c18Plan {
		p := c18Plan{Goroutines: rapid.IntRange(6, 24).Draw(rt, "goroutines"), Millis: rapid.SampledFrom([]int{700, 1200, 2300, 3200}).Draw(rt, "millis"),
			Deep: rapid.IntRange(0, 3).Draw(rt, "deep") == 0, RealLoop: rapid.IntRange(0, 9).Draw(rt, "realLoop") == 0}
		for i := 0; i < p.Goroutines; i++ {
			op := rapid.SampledFrom(c18Ops).Draw(rt, "script")
			if i == 0 {
				op = "propose"
			}
			if i == 1 {
				op = "orphans"
			}
			p.Scripts = append(p.Scripts, op)
		}
		return p
	})
	cases := envInt("VERIF_C18_CASES", 4)
	base := envInt("VERIF_SEED", 1)*1_000_003 + shard()*1009
	for caseNo := 0; caseNo < cases; caseNo++ {
		p := planGen.Example(base + caseNo)
		if caseNo == 1 && shard()%4 == 1 {
			p.RealLoop = true // at least a few workloads of every run race with the node's own truncation loop
		}
		if caseNo == 2 && shard()%2 == 1 {
			// ... and a few have a hook-triggered truncation of a deep DAG overlapping by-hash reads of old vertices and
			// stream consumers that read what they are handed
			p.Deep, p.RealLoop = true, false
			for i, op := range []string{"truncate", "read-vertex", "read-vertex", "stream", "stream", "balance"} {
				if 2+i < len(p.Scripts) {
					p.Scripts[2+i] = op
				} else {
					p.Scripts = append(p.Scripts, op)
				}
			}
			p.Goroutines = len(p.Scripts)
		}
		writers := 0
		for _, op := range p.Scripts {
			switch op {
			case "propose", "gossip-feed", "orphans", "retry", "truncate", "gossip-handler":
				writers++
			}
		}
		ops, inc := c18Run(p, fmt.Sprintf("c18-%d-%d", shard(), caseNo))
		if inc != "" {
			st.note("inconclusive: %s", inc)
			st.label("inconclusive-case")
			continue
		}
		st.eval(1)
		kinds := 0
		for k, v := range ops {
			kinds++
			st.labelN("ops:"+k, v)
		}
		if kinds >= 2 && writers >= 1 {
			st.nontrivial(fp64(fmt.Sprintf("%+v", p)))
			st.sample(map[string]any{"plan": p, "ops_done": ops})
		}
	}
	// the detector writes its reports asynchronously to the log files; judge them once at the end
	time.Sleep(300 * time.Millisecond)
	reports := parseRaceReports(dir)
	failed := false
	for sig, rep := range reports {
		if st.reportOnce(sig, "the race detector reports unsynchronised access: "+sig+"\n"+rep, map[string]string{"report": rep}) {
			failed = true
		}
	}
	st.labelN("race-reports-with-repository-frames", int64(len(reports)))
	if failed {
		t.Errorf("C18: data races reported")
	}
}
