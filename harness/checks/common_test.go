package checks

import "context"

var bg = context.Background()
