package checks

import (
	"errors"
	"fmt"

	"github.com/bartossh/Computantis/src/accountant"
	"github.com/bartossh/Computantis/src/spice"

	"verif/harness/ref"
	"verif/harness/sim"
)

// c13RetryBoundOnce parks one vertex whose parent never arrives and retries it until it leaves the buffer. It returns
// the highest retry count the buffer showed for it (hook field Repeated: exact, whoever retried - harness or the node's
// own ticker) and whether it left within `limit` retries.
func c13RetryBoundOnce(seed string, limit int) (maxSeen int, left bool, inc string) {
	w, err := sim.NewWorld(sim.Config{Nodes: 1, Users: 2, GenesisC: 1000, Seed: seed})
	if err != nil {
		return 0, false, "world: " + err.Error()
	}
	defer w.Close()
	worldsMade++
	book := w.Nodes[0].Book
	tx := w.MakeTx(0, 1, spice.Melange{}, 5)
	ghost := ref.Hash{0x98, 0x13, 0x77}
	v := ref.Seal(tx, ghost, ghost, 60, tx.CreatedAt, w.Wallets[w.RogueWallet(0)])
	if aerr := book.AddLeaf(bg, &v); !errors.Is(aerr, accountant.ErrParentDoesNotExists) {
		return 0, false, fmt.Sprintf("orphan not parked: %v", aerr)
	}
	seen := func() (int, bool) {
		for _, p := range sim.ParkedList(book) {
			if p.Hash == v.Hash {
				return p.Repeated, true
			}
		}
		return 0, false
	}
	for k := 0; k < limit; k++ {
		r, ok := seen()
		if !ok {
			return maxSeen, true, ""
		}
		if r > maxSeen {
			maxSeen = r
		}
		// the retry answers with the ledger's refusal (parent unknown / given up): what counts is the buffer's own record
		w.Retry(0)
	}
	_, ok := seen()
	return maxSeen, !ok, ""
}

// c13RetryBound: "bounded retries" in both directions. The node documents 25 retries per parked vertex (maxRepeats):
// a vertex that is still waiting for its parent must survive 25 failed retries (the lost-vertex verdict of the
// schedules relies on exactly this bound) and must have left the buffer after a few more.
func c13RetryBound(st *stats) (failed bool) {
	const bound = 25
	early, never := 0, 0
	var lastMax int
	for attempt := 0; attempt < 3; attempt++ {
		maxSeen, left, inc := c13RetryBoundOnce(fmt.Sprintf("c13-bound-%d-%d", shard(), attempt), 3*bound)
		if inc != "" {
			st.note("c13 retry bound: %s", inc)
			st.label("inconclusive-case")
			return false
		}
		st.eval(1)
		st.enumNontrivial(1)
		// the buffer's counter counts insertions: the first parking and one per failed retry the vertex survived
		maxSeen--
		st.label(fmt.Sprintf("retry-bound:failed-retries-survived=%d", maxSeen))
		lastMax = maxSeen
		switch {
		case !left:
			never++
		case maxSeen < bound:
			// the count may have been read just before another retrier (the node's ticker) used the last allowed retry:
			// believed only when three fresh worlds agree
			early++
		default:
			return false
		}
	}
	if never == 3 {
		return st.reportOnce("retries-unbounded", fmt.Sprintf("a vertex whose parent never arrives is still parked after %d retries (documented bound %d)", 3*bound, bound), map[string]string{"kind": "retry-bound"})
	}
	if early == 3 {
		return st.reportOnce("dropped-before-retry-bound", fmt.Sprintf("a parked vertex left the buffer after at most %d failed retries in three fresh worlds; the node promises %d retries before giving a vertex up, so a parent arriving after the %dth retry finds its child gone", lastMax+1, bound, bound), map[string]string{"kind": "retry-bound"})
	}
	return false
}
