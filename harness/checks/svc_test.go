package checks

import (
	"context"
	"fmt"
	"sync"
	"time"

	"github.com/bartossh/Computantis/src/accountant"
	"github.com/bartossh/Computantis/src/cache"
	"github.com/bartossh/Computantis/src/dataprovider"
	"github.com/bartossh/Computantis/src/gossip"
	"github.com/bartossh/Computantis/src/notaryserver"
	"github.com/bartossh/Computantis/src/protobufcompiled"
	"github.com/bartossh/Computantis/src/spice"
	"github.com/bartossh/Computantis/src/transaction"
	"github.com/bartossh/Computantis/src/wallet"
	"github.com/bartossh/Computantis/src/webhooks"
	"github.com/bartossh/Computantis/src/webhooksserver"

	"verif/harness/ref"
	"verif/harness/sim"
)

// Service harness: the real notary, gossip and webhooks service objects (through the verif hooks) over a real
// ledger, real awaiting cache and real challenge store.

type teleStub struct{}

func (teleStub) CreateUpdateObservableHistogram(name, description string) {}
func (teleStub) RecordHistogramTime(name string, t time.Duration) bool    { return true }
func (teleStub) RecordHistogramValue(name string, f float64) bool         { return true }

// flashStub never throttles and never remembers.
type flashStub struct{}

func (flashStub) HasAddress(string) (bool, error) { return false, nil }
func (flashStub) RemoveAddress(string) error      { return nil }
func (flashStub) HasHash([]byte) (bool, error)    { return false, nil }

// pipeSink records what the services hand to the gossip pipeline.
type pipeSink struct {
	mu   sync.Mutex
	trxs []*protobufcompiled.Transaction
	vrxs []*accountant.Vertex
}

func (p *pipeSink) SendTrx(t *protobufcompiled.Transaction) bool {
	p.mu.Lock()
	p.trxs = append(p.trxs, t)
	p.mu.Unlock()
	return true
}
func (p *pipeSink) SendVrx(v *accountant.Vertex) bool {
	p.mu.Lock()
	p.vrxs = append(p.vrxs, v)
	p.mu.Unlock()
	return true
}
func (p *pipeSink) SubscribeToTrx() <-chan *protobufcompiled.Transaction { return nil }
func (p *pipeSink) SubscribeToVrx() <-chan *accountant.Vertex            { return nil }

type svc struct {
	w        *sim.World
	book     *accountant.AccountingBook
	hip      *cache.Hippocampus
	dp       *dataprovider.Cache
	sink     *pipeSink
	notary   protobufcompiled.NotaryAPIServer
	gossip   *gossip.VerifGossiper
	webhooks protobufcompiled.WebhooksAPIServer
	whSvc    *webhooks.Service
	cancel   context.CancelFunc
	funded   int
}

// newSvc builds one node with all three services; the first `fund` user wallets get 100 units each.
func newSvc(seed string, users, fund int, realFlash bool, challengeSeconds uint64) (*svc, error) {
	return newSvcT(seed, users, fund, realFlash, challengeSeconds, 0)
}

// newSvcT is newSvc with the node's Config.Truncate set (0 = the default mark that no test reaches).
func newSvcT(seed string, users, fund int, realFlash bool, challengeSeconds uint64, truncate uint64) (*svc, error) {
	w, err := sim.NewWorld(sim.Config{Nodes: 1, Users: users, GenesisC: 1_000_000, Seed: seed, Truncate: truncate})
	if err != nil {
		return nil, err
	}
	s := &svc{w: w, book: w.Nodes[0].Book, sink: &pipeSink{}, funded: fund}
	for i := 1; i <= fund; i++ {
		if r := w.ProposeTx(0, w.MakeTx(0, i, spice.New(100, 0), 0)); r.Err != nil {
			return s, fmt.Errorf("funding: %w", r.Err)
		}
	}
	// one more vertex so that the funding transfers are confirmed
	if r := w.ProposeTx(0, w.MakeTx(0, 1, spice.Melange{}, 3)); r.Err != nil {
		return s, fmt.Errorf("funding: %w", r.Err)
	}
	s.hip, err = cache.New(8192, 32)
	if err != nil {
		return s, err
	}
	ctx, cancel := context.WithCancel(context.Background())
	s.cancel = cancel
	s.dp = dataprovider.New(ctx, dataprovider.Config{Longevity: challengeSeconds})
	log := sim.NewLogger()
	ver := wallet.NewVerifier()
	var nflash interface {
		HasAddress(string) (bool, error)
		RemoveAddress(string) error
	} = flashStub{}
	var gflash interface {
		HasHash([]byte) (bool, error)
		RemoveAddress(string) error
	} = flashStub{}
	if realFlash {
		f, err := cache.NewFlash()
		if err != nil {
			return s, err
		}
		nflash, gflash = f, f
	}
	s.notary = notaryserver.VerifNewServer(notaryserver.Config{NodePublicURL: "node", DataSizeBytes: 2048}, nil, s.dp, teleStub{}, log, ver, s.book, s.hip, nflash, s.sink)
	s.gossip = gossip.VerifNewGossiper("node", log, time.Second, w.Nodes[0].Key, ver, s.book, s.hip, gflash, s.sink, nil)
	s.whSvc = webhooks.New(log)
	s.webhooks = webhooksserver.VerifNewApp(log, ver, s.whSvc)
	return s, nil
}

func (s *svc) close() {
	if s.cancel != nil {
		s.cancel()
	}
	if s.hip != nil {
		s.hip.Close()
	}
	s.w.Close()
}

// protoTx is the harness's own transaction -> wire mapping (not the repository's transformer).
func protoTx(t *transaction.Transaction) *protobufcompiled.Transaction {
	return &protobufcompiled.Transaction{
		Subject: t.Subject, Data: t.Data, Hash: append([]byte(nil), t.Hash[:]...), CreatedAt: uint64(t.CreatedAt.UnixNano()),
		ReceiverAddress: t.ReceiverAddress, IssuerAddress: t.IssuerAddress,
		ReceiverSignature: append([]byte(nil), t.ReceiverSignature...), IssuerSignature: append([]byte(nil), t.IssuerSignature...),
		Spice: &protobufcompiled.Spice{Currency: t.Spice.Currency, SupplementaryCurrency: t.Spice.SupplementaryCurrency},
	}
}

// signedHash builds a SignedHash request: address claims, data, signature by signer over data.
func signedHash(addr string, data []byte, signer *ref.Key) *protobufcompiled.SignedHash {
	d, sig := signer.Sign(data)
	return &protobufcompiled.SignedHash{Address: addr, Data: append([]byte(nil), data...), Hash: d[:], Signature: sig}
}

// call runs an RPC under recover.
func call[T any](f func() (T, error)) (res T, err error, panicked any) {
	defer func() {
		if r := recover(); r != nil {
			panicked = r
		}
	}()
	res, err = f()
	return
}

// awaitingOf reads the awaiting listing of an address straight from the cache.
func (s *svc) awaitingOf(addr string) map[ref.Hash]bool {
	out := map[ref.Hash]bool{}
	trxs, _ := s.hip.ReadTransactions(addr)
	for _, t := range trxs {
		out[t.Hash] = true
	}
	return out
}

// ledgerTxs lists the transaction hashes sealed in the ledger.
func (s *svc) ledgerTxs() (map[ref.Hash]*accountant.Vertex, error) {
	snap, err := s.w.Snapshot(s.w.Nodes[0])
	if err != nil {
		return nil, err
	}
	out := map[ref.Hash]*accountant.Vertex{}
	for _, v := range snap.Live {
		out[v.Transaction.Hash] = v
	}
	for _, v := range snap.Stored {
		out[v.Transaction.Hash] = v
	}
	return out, nil
}
