package checks

import (
	"fmt"
	"time"

	"github.com/bartossh/Computantis/src/accountant"
	"github.com/bartossh/Computantis/src/spice"

	"verif/harness/ref"
	"verif/harness/sim"
)

// c03Sync: the sync path. A peer's honest stream is extended by ONE further vertex that seals a transaction the stream
// already holds in another vertex (distinct vertex hash: other parents, other sealer, other time). A joining node that
// loads it and goes into service must not hold that transaction in two vertices, and its index must point at a vertex
// that really carries the transaction.
func c03Sync(st *stats) (failed bool) {
	w, err := sim.NewWorld(sim.Config{Nodes: 1, Users: 3, GenesisC: 100000, Seed: fmt.Sprintf("c03-sync-%d", shard())})
	if err != nil {
		st.note("c03 sync world: %v", err)
		return false
	}
	defer w.Close()
	worldsMade++
	for i := 0; i < 9; i++ {
		amt, data := spice.New(uint64(3+i), 0), 0
		if i%3 == 2 {
			amt, data = spice.Melange{}, 7
		}
		w.ProposeTx(0, w.MakeTx(0, 1+(i+1)%3, amt, data))
	}
	stream, err := c14Collect(w.Nodes[0].Book)
	if err != nil || len(stream) < 6 {
		st.note("c03 sync stream: %v (%d)", err, len(stream))
		return false
	}
	snap, err := w.Snapshot(w.Nodes[0])
	if err != nil {
		return false
	}
	tips := ref.SortedHashes(snap.Tips())
	rogue := w.Wallets[w.RogueWallet(0)]
	idx := 0
	for _, victim := range []int{1, len(stream) / 2, len(stream) - 2} {
		for _, place := range []string{"tip", "middle", "first"} {
			idx++
			if idx%nshards() != shard()%nshards() {
				continue
			}
			if victim <= 0 || victim >= len(stream) {
				continue
			}
			orig := stream[victim]
			if orig.Hash == w.Genesis.Hash {
				continue
			}
			parent := w.Arch.V[tips[0]]
			if place == "middle" {
				parent = stream[len(stream)/2]
			}
			if parent == nil {
				continue
			}
			twin := ref.Seal(orig.Transaction, parent.Hash, parent.Hash, parent.Weight+1, parent.CreatedAt.Add(2*time.Second), rogue)
			if twin.Hash == orig.Hash {
				continue
			}
			s2 := append(append([]*accountant.Vertex{}, stream...), &twin)
			if place == "first" {
				// the twin travels right behind its parent-free position is impossible (it needs its parent first), so
				// "first" puts it directly behind the parent it names
				s2 = s2[:0]
				for _, v := range stream {
					s2 = append(s2, v)
					if v.Hash == parent.Hash {
						s2 = append(s2, &twin)
					}
				}
			}
			name := fmt.Sprintf("c03-joiner-%d", idx)
			tgt, cause, inc := c14Load(&lm{w: w}, s2, false, name)
			if inc != "" {
				st.note("c03 sync: %s", inc)
				st.label("inconclusive-case")
				continue
			}
			st.eval(1)
			st.enumNontrivial(1)
			st.label("sync:same-transaction-in-two-vertices/" + place)
			if !tgt.Book.DagLoaded() {
				st.label("sync:stream-refused")
				continue
			}
			raw, err := sim.RawSnapshot(tgt.Book)
			if err != nil {
				continue
			}
			holders := map[ref.Hash][]ref.Hash{}
			for i := range raw.Live {
				v := &raw.Live[i]
				holders[v.Transaction.Hash] = append(holders[v.Transaction.Hash], v.Hash)
			}
			for i := range raw.Stored {
				v := &raw.Stored[i]
				holders[v.Transaction.Hash] = append(holders[v.Transaction.Hash], v.Hash)
			}
			for th, vs := range holders {
				if len(vs) > 1 {
					if st.reportOnce("sync-duplicate-transaction", fmt.Sprintf("a joining node loaded a stream in which transaction %x is sealed by two vertices (the second on the %s) and went into service (loaded=%v cause=%v) holding it in %d vertices: %x", th[:4], place, tgt.Book.DagLoaded(), cause, len(vs), vs), map[string]string{"kind": "sync-twin", "place": place, "victim": fmt.Sprint(victim)}) {
						failed = true
					}
				}
			}
			st.label("sync:twin-stream-marked-loaded")
		}
	}
	return failed
}
