package checks

import (
	"encoding/json"
	"fmt"
	"os"
	"strings"
	"testing"

	"verif/harness/sim"
)

// Replay of a ledger-machine trace without the property-testing library: the recorded operation log is executed
// on a fresh world and judged by the same oracles. Vertices created by nodes get new timestamps (hence new hashes),
// so the replay is the same history structurally (operations refer to vertices by creation index), not byte for byte.

type lmReplayFile struct {
	Config lmConfig `json:"config"`
	Plan   *c07Plan `json:"plan"`
	Seed   string   `json:"seed"`
	Ops    []sim.Op `json:"ops"`
}

func lmReplay(t *testing.T, prop string) {
	var tr lmReplayFile
	loadReplay(t, &tr)
	sim.Chdir(t.TempDir())
	cfg := tr.Config
	if tr.Plan != nil {
		cfg = lmConfig{Nodes: 2, Users: 4, Rogue: tr.Plan.Rogue, BoundaryAmt: true}
	}
	if cfg.Nodes == 0 {
		cfg.Nodes = 1
	}
	if len(tr.Ops) == 0 {
		t.Skip("trace holds no operation log")
	}
	m, err := lmNew(nil, cfg, tr.Seed)
	if err != nil {
		t.Fatalf("world: %v", err)
	}
	defer m.w.Close()
	round := 0
	for i, op := range tr.Ops {
		if m.stuck != nil {
			break
		}
		desc := fmt.Sprintf("op %d %s", i, op.K)
		switch {
		case op.K == "truncate" && prop == "C07":
			round++
			m.c07Truncate(round)
			continue
		case op.K == "balance":
			before := m.snaps[op.N]
			res := m.w.Apply(op)
			name := op.Note
			if name == "" && op.Addr < len(m.w.Wallets) {
				name = m.w.Wallets[op.Addr].Name
			}
			m.judgeBalance(op.N, before, m.w.AddrOf(op), name, res.Balance, res.Err)
		default:
			res := m.w.Apply(op)
			m.noteResult("C08", res, op.K)
			if op.K == "propose" && res.Vertex != nil {
				m.pendingCreated = append(m.pendingCreated, lmCreated{op.N, res.Vertex, m.snaps[op.N]})
			}
			if op.K == "truncate" {
				m.truncated[op.N] = true
			}
		}
		m.observe(desc)
		trustedOn := false
		for _, s := range m.snaps {
			if len(s.Trusted) > 0 {
				trustedOn = true
			}
		}
		if !trustedOn && !m.tainted {
			m.oracleC02(desc)
		}
	}
	known := loadKnown(prop)
	var bad []string
	for _, v := range m.viol {
		if v.Prop == prop && !known[v.Sig] {
			bad = append(bad, v.Sig+": "+v.Msg)
		}
	}
	if len(bad) > 0 {
		t.Fatalf("VIOLATION reproduced (%d):\n%s", len(bad), strings.Join(bad, "\n"))
	}
	t.Logf("replayed %d operations, %d violations of other properties or known findings", len(tr.Ops), len(m.viol))
}

func TestReplayC01(t *testing.T) { lmReplay(t, "C01") }
func TestReplayC02(t *testing.T) { lmReplay(t, "C02") }
func TestReplayC03(t *testing.T) { lmReplay(t, "C03") }
func TestReplayC06(t *testing.T) { lmReplay(t, "C06") }
func TestReplayC07(t *testing.T) { lmReplay(t, "C07") }
func TestReplayC09(t *testing.T) { lmReplay(t, "C09") }
func TestReplayC10(t *testing.T) { lmReplay(t, "C10") }

// TestReplayC14 rebuilds the source ledger from the operation log and repeats the sync with the recorded plan
// (unpermuted stream, corruption at the recorded position, no follow-ups).
func TestReplayC14(t *testing.T) {
	var tr struct {
		Plan c14Plan  `json:"plan"`
		Seed string   `json:"seed"`
		Ops  []sim.Op `json:"ops"`
	}
	loadReplay(t, &tr)
	sim.Chdir(t.TempDir())
	sig, msg := c14ReplayRun(tr.Plan, tr.Seed, tr.Ops)
	if sig != "" {
		t.Fatalf("VIOLATION reproduced sig=%s: %s", sig, msg)
	}
}

func TestReplayC11(t *testing.T) { replayGossip(t, "C11") }
func TestReplayC12(t *testing.T) { replayGossip(t, "C12") }

func replayGossip(t *testing.T, prop string) {
	var c c11Case
	loadReplay(t, &c)
	sim.Chdir(t.TempDir())
	n, err := newVnet(c.N, "replay-"+prop)
	if err != nil {
		t.Fatalf("network: %v", err)
	}
	defer n.close()
	hv := newHarvest()
	fi := 0
	if c.Evil >= 0 {
		warm := c
		warm.Kind, warm.Forge = "vrx", nil
		n.runGossip(warm, func(step, av int) int { return 0 }, func(string, int) int { return 0 }, hv)
		n.syncLedgers()
	}
	sig, msg, _, _, inc := n.runGossip(c, func(step, av int) int {
		if step < len(c.Order) && c.Order[step] < av {
			return c.Order[step]
		}
		return 0
	}, func(label string, k int) int {
		v := 0
		if fi < len(c.Forge) {
			v = c.Forge[fi] % k
		}
		fi++
		return v
	}, hv)
	if sig != "" && !loadKnown(prop)[sig] {
		t.Fatalf("VIOLATION reproduced sig=%s: %s", sig, msg)
	}
	if inc != "" {
		t.Logf("inconclusive: %s", inc)
	}
}

func TestReplayC18(t *testing.T) {
	var w struct {
		Report string  `json:"report"`
		Plan   c18Plan `json:"plan"`
	}
	loadReplay(t, &w)
	if len(w.Plan.Scripts) == 0 {
		t.Skip("the replay file of a race holds the detector's report; re-run `bin/vcheck C18 quick` (a -race build) to look for it again")
	}
	dir := t.TempDir()
	sim.Chdir(dir)
	if _, inc := c18Run(w.Plan, "c18-replay"); inc != "" {
		t.Logf("inconclusive: %s", inc)
	}
}

var _ = json.Marshal
var _ = os.Getenv
