package checks

import (
	"errors"
	"fmt"
	"math/big"
	"strings"
	"sync"
	"testing"
	"time"

	"github.com/bartossh/Computantis/src/accountant"
	"github.com/bartossh/Computantis/src/spice"
	"github.com/bartossh/Computantis/src/transaction"
	"pgregory.net/rapid"

	"verif/harness/ref"
	"verif/harness/sim"
)

// C07 — truncation is transparent. Node 0 (A) truncates, node 1 (B, the twin) holds the same vertices and never
// truncates. Built on the ledger machine so that C01/C03/C09 oracles keep running on both nodes.

type c07Plan struct {
	Region   int  `json:"region_steps"`
	Extra    int  `json:"filler_extra"`
	StaleTip bool `json:"stale_tip"` // a vertex on old parents is delivered just before the cut
	// StaleOverdraw: that vertex always sits on a payment to its issuer and spends one smallest unit more than the issuer owns
	StaleOverdraw bool `json:"stale_overdraw"`
	Second        bool `json:"second"`     // a second truncation after 1000 more vertices
	FollowUps     int  `json:"follow_ups"` // operations after each truncation
	Rogue         bool `json:"rogue"`
	Bulky         int  `json:"bulky"` // number of region vertices carrying a 48 KB contract payload (0 = none)
}

func c07f(m *lm, s *sim.Snap, tip ref.Hash, addr string) *big.Int {
	set := m.w.Arch.AncWithin(tip, s.LiveSet())
	set[tip] = struct{}{}
	in, out := m.w.Arch.Flow(set, addr)
	v := new(big.Int).Sub(in, out)
	if f, ok := s.Raw.Funds[addr]; ok {
		v.Add(v, ref.V(f))
	}
	return v
}

func (m *lm) allAddrs() map[string]string {
	out := map[string]string{}
	for _, k := range m.w.Wallets {
		out[k.Addr] = k.Name
	}
	return out
}

// c07Truncate truncates node 0 and applies clauses (a)-(d). Returns the set of moved vertices.
func (m *lm) c07Truncate(round int) map[ref.Hash]struct{} {
	const A = 0
	S := m.snaps[A]
	t := m.w.Apply(sim.Op{K: "truncate", N: A})
	m.truncated[A] = true
	m.label("op:truncate")
	if t.Err != nil {
		if errors.Is(t.Err, sim.ErrStuck) {
			m.stuckViol("truncate", t.Err)
			return nil
		}
		// the cut is the 1000th distinct ancestor of an arbitrarily chosen tip: if some tip has fewer live ancestors the
		// premise of the call is not met for that tip and an error is the documented outcome - but then nothing may change
		short := false
		for tp := range S.Tips() {
			if len(m.w.Arch.AncWithin(tp, S.LiveSet())) < 1000 {
				short = true
			}
		}
		after, serr := m.w.Snapshot(m.w.Nodes[A])
		if serr != nil {
			m.stuck = serr
			return nil
		}
		if after.Digest(true) != S.Digest(true) {
			m.addViol("C07", "failed-truncation-changed-ledger", "truncation #%d returned %v and changed the ledger", round, t.Err)
		}
		if short {
			m.label("c07:truncate-refused-short-tip")
			m.snaps[A] = after
			return nil
		}
		m.addViol("C07", "truncate-error", "truncation #%d of a DAG with %d live vertices (every tip has >=1000 ancestors) returned %v", round, len(S.Live), t.Err)
		return nil
	}
	m.observe(fmt.Sprintf("truncate #%d", round))
	if m.stuck != nil {
		return nil
	}
	S2 := m.snaps[A]
	moved := map[ref.Hash]struct{}{}
	for h := range S.Live {
		if _, still := S2.Live[h]; !still {
			moved[h] = struct{}{}
		}
	}
	newlyStored := map[ref.Hash]struct{}{}
	for h := range S2.Stored {
		if _, was := S.Stored[h]; !was {
			newlyStored[h] = struct{}{}
		}
	}
	spiceMoved := 0
	for h := range moved {
		if v := m.w.Arch.V[h]; v != nil && ref.IsSpice(v) {
			spiceMoved++
		}
	}
	m.labels["c07:spice-vertices-moved"] += spiceMoved
	m.labels["c07:vertices-moved"] += len(moved)
	// (c) moved == newly stored, ancestor closed
	for h := range moved {
		if _, ok := newlyStored[h]; !ok {
			m.addViol("C07", "vertex-lost", "truncation #%d removed vertex %s from the DAG without checkpointing it", round, m.describe(m.w.Arch.V[h]))
		}
	}
	for h := range newlyStored {
		if _, ok := moved[h]; !ok {
			m.addViol("C07", "stored-but-still-live", "truncation #%d checkpointed vertex %s that stays in the DAG", round, short(h))
		}
	}
	stored2 := S2.StoredSet()
	for h := range stored2 {
		for _, p := range ref.Parents(m.w.Arch.V[h]) {
			if _, ok := stored2[p]; !ok {
				m.addViol("C07", "checkpoint-not-ancestor-closed", "checkpointed vertex %s has parent %s which is not checkpointed", short(h), short(p))
			}
		}
	}
	// (c) funds == net flow of exactly the stored vertices, each once (addresses with negative true net excluded)
	tips := S.Tips()
	staleTips := map[ref.Hash]bool{}
	for tp := range tips {
		if _, ok := S2.Live[tp]; !ok {
			m.addViol("C07", "tip-removed", "truncation #%d removed tip %s", round, short(tp))
		}
		hasLiveParent := false
		for _, p := range ref.Parents(m.w.Arch.V[tp]) {
			if _, ok := S2.Live[p]; ok {
				hasLiveParent = true
			}
		}
		if !hasLiveParent || !m.descendsFromAll(tp, moved) {
			staleTips[tp] = true
			if m.staleTips == nil {
				m.staleTips = map[ref.Hash]bool{}
			}
			m.staleTips[tp] = true
			m.label("c07:stale-tip-at-cut")
		}
	}
	if len(tips) >= 2 {
		m.label("c07:several-tips-at-cut")
	}
	for addr, name := range m.allAddrs() {
		in, out := m.w.Arch.Flow(stored2, addr)
		net := new(big.Int).Sub(in, out)
		if net.Sign() < 0 {
			// the node clips a negative checkpointed net to the gross inflow (known finding); whatever it stores for this
			// address from now on - also after later truncations that bring the true net back to >= 0 - carries that clip
			if m.clipped == nil {
				m.clipped = map[string]bool{}
			}
			m.clipped[addr] = true
			continue
		}
		got := new(big.Int)
		if f, ok := S2.Raw.Funds[addr]; ok {
			got = ref.V(f)
			if !spiceCanon(f) {
				m.addViol("C07", "noncanonical-checkpoint", "checkpointed funds of %s are not canonical: %v", name, f)
			}
		}
		if got.Cmp(net) != 0 {
			if m.clipped[addr] {
				m.addViol("C07", "checkpoint-clips-overdrawn-wallet", "after truncation #%d the checkpointed funds of %s are %s, the net flow of the checkpointed vertices is %s: at an earlier truncation the checkpointed vertices overdrew this wallet and its negative net was clipped", round, name, got, net)
				continue
			}
			m.addViol("C07", "checkpoint-funds-wrong", "after truncation #%d the checkpointed funds of %s are %s; the net flow of the %d checkpointed vertices (each once) is %s", round, name, got, len(stored2), net)
		}
		// (a) balances per tip unchanged
		for tp := range tips {
			if _, ok := S2.Live[tp]; !ok {
				continue
			}
			before, after := c07f(m, S, tp, addr), c07f(m, S2, tp, addr)
			if before.Cmp(after) != 0 {
				sig := "balance-changed"
				if staleTips[tp] || !m.descendsFromAll(tp, moved) {
					sig = "balance-changed-at-tip-not-descending-from-cut"
				}
				m.addViol("C07", sig, "truncation #%d changed the balance of %s at tip %s from %s to %s", round, name, short(tp), before, after)
			}
		}
	}
	for addr := range S2.Raw.Funds {
		if _, known := m.allAddrs()[addr]; !known && addr != m.w.Genesis.Transaction.IssuerAddress {
			m.addViol("C07", "checkpoint-funds-invented", "checkpoint holds funds for unknown address %s", addr)
		}
	}
	// (b) every vertex confirmed before is still retrievable by hash with identical content. All reads first, all
	// comparisons afterwards: what a read returned must stay what it was while later reads are served (a caller holds
	// several results at once - a history listing, two concurrent handlers).
	type readBack struct {
		v    accountant.Vertex
		verr error
		tx   transaction.Transaction
		terr error
	}
	back := map[ref.Hash]*readBack{}
	order := ref.SortedHashes(m.conf[A])
	for _, h := range order {
		v := m.w.Arch.V[h]
		rb := &readBack{}
		rb.v, rb.verr = m.w.Nodes[A].Book.ReadVertex(bg, h)
		rb.tx, rb.terr = m.w.Nodes[A].Book.ReadTransactionByHash(bg, v.Transaction.Hash)
		back[h] = rb
	}
	for _, h := range order {
		v := m.w.Arch.V[h]
		rb := back[h]
		if rb.verr != nil {
			m.addViol("C07", "vertex-not-retrievable", "after truncation #%d ReadVertex(%s) fails: %v", round, short(h), rb.verr)
		} else if d := vrxDiff(v, &rb.v); d != "" {
			m.addViol("C07", "vertex-content-changed", "after truncation #%d vertex %s read back differs in %s (compared after all %d confirmed vertices had been read)", round, short(h), d, len(order))
		}
		if rb.terr != nil {
			m.addViol("C07", "transaction-not-retrievable", "after truncation #%d ReadTransactionByHash(%s) fails: %v", round, short(v.Transaction.Hash), rb.terr)
		} else if d := trxDiff(&v.Transaction, &rb.tx); d != "" {
			m.addViol("C07", "transaction-content-changed", "after truncation #%d transaction %s read back differs in %s (compared after all reads)", round, short(v.Transaction.Hash), d)
		}
	}
	return moved
}

// descendsFromAll: tip has every moved vertex among its ancestors (i.e. the tip descends from the cut region).
func (m *lm) descendsFromAll(tip ref.Hash, moved map[ref.Hash]struct{}) bool {
	anc := m.w.Arch.Anc(tip)
	for h := range moved {
		if _, ok := anc[h]; !ok {
			return false
		}
	}
	return true
}

// c07Resubmit: clause (d).
func (m *lm) c07Resubmit(moved map[ref.Hash]struct{}, k int) {
	const A = 0
	hs := ref.SortedHashes(moved)
	if len(hs) == 0 {
		return
	}
	for j := 0; j < k; j++ {
		h := hs[rapid.IntRange(0, len(hs)-1).Draw(m.rt, "resubmitIdx")]
		before := m.snaps[A].Digest(true)
		var res sim.Result
		kind := "vertex"
		if rapid.Bool().Draw(m.rt, "resubmitTx") {
			kind = "transaction"
			res = m.w.Apply(sim.Op{K: "repropose", N: A, V: m.w.OrderIndex(h)})
		} else {
			res = m.w.Apply(sim.Op{K: "deliver", N: A, V: m.w.OrderIndex(h)})
		}
		m.label("c07:resubmit-" + kind)
		s, err := m.w.Snapshot(m.w.Nodes[A])
		if err != nil {
			m.stuck = err
			return
		}
		if res.Err == nil {
			m.addViol("C07", "checkpointed-"+kind+"-accepted-again", "re-submitting checkpointed %s of vertex %s was accepted", kind, short(h))
		} else if s.Digest(true) != before {
			m.addViol("C07", "resubmission-changed-ledger", "rejected re-submission of checkpointed %s %s changed the ledger (orphan buffer included)", kind, short(h))
		}
		m.observe("resubmit " + kind)
	}
}

// c07FollowUps: operations offered identically to A and B.
// c07DroppedValid: "later transfers are validated against the same funds as before": a spend that the truncated node
// itself sealed after the cut, that is covered in its own full history (ancestors through live AND checkpointed
// vertices) and that the node then drops as invalid, was judged against different funds.
func (m *lm) c07DroppedValid(before, after *sim.Snap, what string) {
	const A = 0
	if m.checkpointOverdrawn() {
		return
	}
	for h, v := range before.Live {
		if _, still := after.Live[h]; still {
			continue
		}
		if _, st := after.Stored[h]; st {
			continue
		}
		if v.SignerPublicAddress != m.w.Nodes[A].Key.Addr || !ref.IsSpice(v) || !m.postCut[h] || m.buildsOnStaleTip(v) {
			continue
		}
		H := ref.Union(m.w.Arch.Anc(h), nil)
		if ok, in, need := m.covered(v, H); ok && ref.VertexValid(v) {
			m.addViol("C07", "covered-spend-dropped-after-truncation", "after truncation the node dropped its own tentative vertex %s during %s although the issuer received %s and needs %s over the vertex's full history (live + checkpointed ancestors): transfers are no longer validated against the same funds", m.describe(v), what, in, need)
		}
	}
}

func (m *lm) c07FollowUps(n int) {
	const A, B = 0, 1
	for i := 0; i < n && m.stuck == nil; i++ {
		preA := m.snaps[A]
		switch rapid.IntRange(0, 3).Draw(m.rt, "followKind") {
		case 0, 1: // proposal at A, delivered to B
			from := m.pickSpender("fFrom")
			to := m.pickReceiver("fTo", from)
			amt := m.drawAmount(A, from, "fAmt")
			r := m.w.Apply(sim.Op{K: "propose", N: A, From: from, To: to, C: amt.Currency, S: amt.SupplementaryCurrency})
			m.noteResult("C07", r, "CreateLeaf")
			desc := fmt.Sprintf("follow-up propose(A, %s->%s %d.%018d)=%s", m.w.Wallets[from].Name, m.w.Wallets[to].Name, amt.Currency, amt.SupplementaryCurrency, errClass(r.Err))
			if r.Vertex != nil {
				if m.postCut == nil {
					m.postCut = map[ref.Hash]bool{}
				}
				m.postCut[r.Vertex.Hash] = true
				m.pendingCreated = append(m.pendingCreated, lmCreated{A, r.Vertex, m.snaps[A]})
				d := m.w.Apply(sim.Op{K: "deliver", N: B, V: m.w.OrderIndex(r.Vertex.Hash)})
				m.label("c07:follow-up-twin-compared")
				if weightRule(d.Err) {
					m.twinsDiverged = true
					m.label("c07:twin-weight-rule-divergence")
				}
				if d.Err != nil && !m.twinsDiverged {
					sig := "twin-rejects-what-truncated-node-created"
					if m.checkpointOverdrawn() {
						sig = "checkpoint-clips-overdrawn-wallet"
					} else if m.buildsOnStaleTip(r.Vertex) {
						// the truncated node judged a tip that does not descend from the cut against the global
						// checkpoint, the twin against that tip's own (shorter) history: the known per-tip/global mismatch
						sig = "balance-changed-at-tip-not-descending-from-cut"
					}
					m.addViol("C07", sig, "vertex %s created by the truncated node on tips it validated against its checkpoint is rejected by the twin that validates against the full history: %v", m.describe(r.Vertex), d.Err)
				}
				desc += " deliver(B)=" + errClass(d.Err)
			}
			m.observe(desc)
		default: // rogue vertex on the current tips of A, delivered to both
			tips := m.tipsOf(A)
			if len(tips) == 0 {
				continue
			}
			l := tips[rapid.IntRange(0, len(tips)-1).Draw(m.rt, "fTipL")]
			rr := tips[rapid.IntRange(0, len(tips)-1).Draw(m.rt, "fTipR")]
			from := m.pickSpender("gFrom")
			to := m.pickReceiver("gTo", from)
			amt := m.drawAmount(A, from, "gAmt")
			res := m.w.Apply(sim.Op{K: "craft", Sealer: m.w.RogueWallet(0), From: from, To: to, C: amt.Currency, S: amt.SupplementaryCurrency, L: m.w.OrderIndex(l), R: m.w.OrderIndex(rr)})
			idx := m.w.OrderIndex(res.Vertex.Hash)
			da := m.w.Apply(sim.Op{K: "deliver", N: A, V: idx})
			db := m.w.Apply(sim.Op{K: "deliver", N: B, V: idx})
			m.noteResult("C07", da, "AddLeaf")
			m.label("c07:follow-up-twin-compared")
			if weightRule(da.Err) || weightRule(db.Err) {
				// the weight/throughput counters are node-local (they depend on which node sealed and which validated),
				// so a weight-rule decision says nothing about truncation
				m.twinsDiverged = true
				m.label("c07:twin-weight-rule-divergence")
			}
			if (da.Err == nil) != (db.Err == nil) && !m.twinsDiverged {
				if _, bHas := m.snaps[B].Live[l]; bHas {
					sig := "twin-outcome-differs"
					if m.checkpointOverdrawn() {
						sig = "checkpoint-clips-overdrawn-wallet"
					} else if m.buildsOnStaleTip(res.Vertex) {
						sig = "balance-changed-at-tip-not-descending-from-cut"
					}
					m.addViol("C07", sig, "gossip of %s: truncated node says %v, twin (full history) says %v", m.describe(res.Vertex), da.Err, db.Err)
				}
			}
			m.observe(fmt.Sprintf("follow-up craft on tips -> A=%s B=%s", errClass(da.Err), errClass(db.Err)))
		}
		m.c07DroppedValid(preA, m.snaps[A], "a follow-up")
		// once the live tips differ (one side dropped a tentative tip the other still holds) outcomes may legally differ
		if !sameKeys(m.snaps[A].Tips(), m.snaps[B].Tips()) {
			m.twinsDiverged = true
		}
	}
}

// checkpointOverdrawn: some wallet other than the genesis issuer has spent more than it received over the
// checkpointed vertices alone - only possible through the C02 merge double-spend (or the trusted exemption); the
// truncated node then validates against a clipped checkpoint and legitimately-by-its-own-rules disagrees with the twin.
func (m *lm) checkpointOverdrawn() bool {
	st := m.snaps[0].StoredSet()
	for _, k := range m.w.Wallets {
		if k.Addr == m.w.Genesis.Transaction.IssuerAddress {
			continue
		}
		in, out := m.w.Arch.Flow(st, k.Addr)
		if in.Cmp(out) < 0 {
			return true
		}
	}
	return false
}

func containsHash(hs []ref.Hash, h ref.Hash) bool {
	for _, x := range hs {
		if x == h {
			return true
		}
	}
	return false
}

// buildsOnStaleTip: one of the vertex's parents (or their ancestors among the tips recorded at the cut) is a tip
// that did not descend from the cut.
func (m *lm) buildsOnStaleTip(v *accountant.Vertex) bool {
	if v == nil || len(m.staleTips) == 0 {
		return false
	}
	anc := m.w.Arch.Anc(v.Hash)
	for h := range m.staleTips {
		if _, ok := anc[h]; ok || v.Hash == h {
			return true
		}
	}
	for _, p := range ref.Parents(v) {
		if m.staleTips[p] {
			return true
		}
	}
	return false
}

func weightRule(err error) bool {
	return err != nil && strings.Contains(err.Error(), "minimal weight")
}

func sameKeys(a, b map[ref.Hash]struct{}) bool {
	if len(a) != len(b) {
		return false
	}
	for k := range a {
		if _, ok := b[k]; !ok {
			return false
		}
	}
	return true
}

func c07Run(rt *rapid.T, p c07Plan, seed string) (*lm, []string, error) {
	cfg := lmConfig{Nodes: 2, Users: 4, Rogue: p.Rogue, BoundaryAmt: true, Steps: p.Region}
	m, err := lmNew(rt, cfg, seed)
	if err != nil {
		return m, nil, err
	}
	m.evalC02 = c07EvalC02
	const A, B = 0, 1
	var log []string
	step := func(desc string) {
		if desc == "" {
			return
		}
		log = append(log, desc)
		m.observe(desc)
	}
	// region to be cut
	for i := 0; i < p.Region && m.stuck == nil; i++ {
		switch rapid.SampledFrom([]string{"propose", "propose", "propose", "craft", "deliver", "deliverAll"}).Draw(rt, "regionOp") {
		case "propose":
			step(m.opPropose())
		case "craft":
			if p.Rogue {
				step(m.opCraft())
			}
		case "deliver":
			step(m.opDeliver())
		case "deliverAll":
			step(m.opDeliverAll())
		}
	}
	// bulky contract payloads (the notary admits up to megabytes): the cut then moves more than ten megabytes at once
	for i := 0; i < p.Bulky && m.stuck == nil; i++ {
		r := m.w.Apply(sim.Op{K: "propose", N: A, From: 1 + i%3, To: 0, Data: 48 * 1024})
		if r.Err == nil {
			m.w.Apply(sim.Op{K: "deliver", N: B, V: m.w.OrderIndex(r.Vertex.Hash)})
		}
	}
	if p.Bulky > 0 {
		step(fmt.Sprintf("%d vertices with 48 KB payloads", p.Bulky))
		m.label("plan:bulky")
	}
	rounds := 1
	if p.Second {
		rounds = 2
	}
	for round := 1; round <= rounds && m.stuck == nil; round++ {
		for k := 0; k < 2; k++ {
			for i := range m.w.Nodes {
				m.w.Apply(sim.Op{K: "deliverAll", N: i})
				for j := 0; j < 60 && len(sim.ParkedList(m.w.Nodes[i].Book)) > 0; j++ {
					m.w.Apply(sim.Op{K: "retry", N: i})
				}
			}
		}
		step("deliverAll everywhere")
		var oldParents []ref.Hash
		for h := range m.snaps[A].Live {
			oldParents = append(oldParents, h)
		}
		r := m.w.Apply(sim.Op{K: "filler", N: A, Cnt: 1001 + p.Extra, V: 1})
		if r.Err != nil {
			m.noteResult("C07", r, "filler")
			return m, log, fmt.Errorf("filler: %w", r.Err)
		}
		step(fmt.Sprintf("filler(%d) on A, each delivered to B", 1001+p.Extra))
		if p.StaleTip && round == 1 && len(oldParents) > 0 {
			// a late vertex on old parents: a tip that does not descend from the cut
			old := ref.SortedHashes(map[ref.Hash]struct{}{oldParents[0]: {}})[0]
			for _, h := range oldParents {
				if v := m.w.Arch.V[h]; v != nil && v.Weight <= m.w.Arch.V[old].Weight {
					old = h
				}
			}
			from := m.pickSpender("staleFrom")
			to := m.pickReceiver("staleTo", from)
			amt := m.drawAmount(A, from, "staleAmt")
			if p.StaleOverdraw || rapid.Bool().Draw(m.rt, "staleOnOwnIncome") {
				// the late vertex sits on a vertex that PAID its issuer and spends one smallest unit more than the issuer owns:
				// its parent will be checkpointed, so the parent's payment reaches the funds test through the checkpoint - once
				var cands []ref.Hash
				for _, h := range ref.SortedHashes(m.snaps[A].LiveSet()) {
					if v := m.w.Arch.V[h]; v != nil && ref.IsSpice(v) && h != m.w.Genesis.Hash {
						if _, isOld := m.w.Arch.Anc(old)[h]; isOld || h == old || containsHash(oldParents, h) {
							cands = append(cands, h)
						}
					}
				}
				if len(cands) > 0 {
					ph := cands[rapid.IntRange(0, len(cands)-1).Draw(m.rt, "staleParent")]
					pv := m.w.Arch.V[ph]
					for wi, k := range m.w.Wallets {
						if k.Addr == pv.Transaction.ReceiverAddress && wi <= m.cfg.Users {
							bal := m.viewBalance(A, wi)
							if a, ok := ref.FromBig(new(big.Int).Add(bal, big.NewInt(1))); ok && bal.Sign() >= 0 {
								old, from, amt = ph, wi, a
								to = (wi + 1) % (m.cfg.Users + 1)
								m.label("c07:stale-tip-overdraws-by-one-unit-on-its-own-income")
							}
						}
					}
				}
			}
			res := m.w.Apply(sim.Op{K: "craft", Sealer: m.w.RogueWallet(1), From: from, To: to, C: amt.Currency, S: amt.SupplementaryCurrency, L: m.w.OrderIndex(old), R: m.w.OrderIndex(old)})
			idx := m.w.OrderIndex(res.Vertex.Hash)
			da := m.w.Apply(sim.Op{K: "deliver", N: A, V: idx})
			db := m.w.Apply(sim.Op{K: "deliver", N: B, V: idx})
			H := ref.Union(m.w.Arch.Anc(res.Vertex.Hash), nil)
			if ok, _, _ := m.covered(res.Vertex, H); !ok {
				m.overdraw[res.Vertex.Hash] = true
			}
			step(fmt.Sprintf("late vertex on an old parent %s (overdraw=%v): A=%s B=%s", m.describe(res.Vertex), m.overdraw[res.Vertex.Hash], errClass(da.Err), errClass(db.Err)))
		}
		if !sameKeys(m.snaps[A].LiveSet(), m.snaps[B].LiveSet()) {
			m.twinsDiverged = true
			m.label("c07:twins-differ-before-cut")
		}
		moved := m.c07Truncate(round)
		log = append(log, fmt.Sprintf("truncate #%d on A: %d vertices moved", round, len(moved)))
		serious := false
		for _, v := range m.viol {
			if v.Prop == "C07" && v.Sig != "balance-changed-at-tip-not-descending-from-cut" {
				serious = true
			}
		}
		if m.stuck != nil || serious {
			break
		}
		m.c07Resubmit(moved, 2)
		m.c07FollowUps(p.FollowUps)
		log = append(log, fmt.Sprintf("%d follow-ups after truncation #%d", p.FollowUps, round))
	}
	return m, log, nil
}

var c07EvalC02 bool

// c07RealTrigger: truncation through the node's own trigger (Config.Truncate = 2000: the background loop truncates once
// the weight exceeds 3000) while proposals keep arriving from two goroutines; afterwards the ledger invariants and
// every wallet's balance are judged against the reference over all vertices.
func c07RealTrigger(t *testing.T, st *stats) {
	w, err := sim.NewWorld(sim.Config{Nodes: 1, Users: 4, GenesisC: 100000, Seed: fmt.Sprintf("c07-real-%d", shard()), Truncate: 2000})
	if err != nil {
		st.note("real trigger: %v", err)
		return
	}
	defer w.Close()
	for i := 0; i < 40; i++ {
		w.ProposeTx(0, w.MakeTx(0, 1+i%4, spice.New(uint64(10+i), uint64(i)), 0))
	}
	for i := 0; i < 30; i++ {
		w.ProposeTx(0, w.MakeTx(1+i%4, 1+(i+1)%4, spice.New(1, 500), 0))
	}
	var wg sync.WaitGroup
	errs := make(chan error, 4)
	for g := 0; g < 2; g++ {
		wg.Add(1)
		go func(g int) {
			defer wg.Done()
			for i := 0; i < 1550; i++ {
				r := w.ProposeTx(0, w.MakeTx(1+(i+g)%4, 0, spice.Melange{}, 6))
				if errors.Is(r.Err, sim.ErrStuck) || sim.IsPanic(r.Err) {
					errs <- r.Err
					return
				}
			}
		}(g)
	}
	wg.Wait()
	st.eval(1)
	st.label("plan:real-trigger")
	select {
	case e := <-errs:
		st.reportOnce("real-trigger-wedged", fmt.Sprintf("proposals racing with the node's own truncation loop: %v", e), map[string]string{"scenario": "real-trigger"})
		t.Errorf("real trigger wedged")
		return
	default:
	}
	var snap *sim.Snap
	for i := 0; i < 400; i++ { // the loop truncates asynchronously after the weight crossed the mark
		snap, err = w.Snapshot(w.Nodes[0])
		if err != nil {
			st.note("real trigger snapshot: %v", err)
			return
		}
		if len(snap.Stored) > 0 {
			break
		}
		time.Sleep(10 * time.Millisecond)
	}
	if len(snap.Stored) == 0 {
		st.note("real trigger: no truncation observed within 4 s (weight %d, next mark %d)", snap.Raw.Weight, snap.Raw.NextWeightTruncate)
		st.label("real-trigger-not-fired")
		return
	}
	st.nontrivial(fp64("real-trigger", shard(), len(snap.Stored)))
	st.labelN("real-trigger:vertices-checkpointed", int64(len(snap.Stored)))
	if w.Nodes[0].Log.FatalCount() > 0 {
		st.reportOnce("log-fatal", fmt.Sprintf("the truncation loop logged Fatal: %v", w.Nodes[0].Log.Fatals), map[string]string{"scenario": "real-trigger"})
		t.Errorf("fatal")
	}
	all := ref.Union(snap.LiveSet(), snap.StoredSet())
	for _, k := range w.Wallets {
		if k.Addr == w.Genesis.Transaction.IssuerAddress {
			continue
		}
		in, out := w.Arch.Flow(all, k.Addr)
		want := in.Sub(in, out)
		got, err := w.Balance(0, k.Addr)
		if err != nil || ref.V(got).Cmp(want) != 0 {
			if len(snap.Tips()) == 1 {
				st.reportOnce("balance-changed", fmt.Sprintf("after the node's own truncation (%d vertices checkpointed) the balance of %s is %v (err %v), the reference over all vertices is %s", len(snap.Stored), k.Name, got, err, want), map[string]string{"scenario": "real-trigger"})
				t.Errorf("balance changed")
			}
		}
	}
	for h := range snap.Stored {
		if _, live := snap.Live[h]; live {
			st.reportOnce("stored-but-still-live", "vertex both live and checkpointed after the node's own truncation", map[string]string{"scenario": "real-trigger"})
			t.Errorf("live and stored")
		}
	}
}

func TestC07(t *testing.T) {
	st := newStats(t, "C07", "cases = two-node worlds (A truncates, twin B never does) with a generated region near genesis (proposals at either node, rogue side branches, delayed delivery, boundary amounts), >=1001 filler vertices, the real truncate, optionally a late vertex on an old parent (tip not descending from the cut) and a second truncation after 1001 more vertices, then re-submission of moved vertices/transactions and follow-up proposals/gossip offered to both nodes; plus, per process, the real truncate racing with balance readers of untouched wallets and with proposers of an overdrawing spend (every answer must equal the pre-truncation balance, the overdraft must never be confirmed); oracle = per-tip per-address balance equality across the cut, by-hash reads identical, moved == newly checkpointed and ancestor-closed, checkpoint funds == net flow of checkpointed vertices, re-submission refused with unchanged snapshot, twin accepts what A creates; non-trivial = at least one spice-transfer vertex was moved to storage; distinct by operation-log fingerprint")
	sim.Chdir(workDir(t))
	if shard() == 0 || (thorough() && shard() < 4) {
		c07RealTrigger(t, st)
	}
	for i := 0; i < scale(1, 4); i++ {
		if outOfBudget(st) {
			break
		}
		c07Race(t, st, i)
	}
	if shard()%3 == 1 {
		c07BigTurnover(t, st)
	}
	caseNo := 0
	rapid.Check(t, func(rt *rapid.T) {
		if outOfBudget(st) {
			return
		}
		worldsMade++
		caseNo++
		p := c07Plan{
			Region:    rapid.IntRange(5, 60).Draw(rt, "region"),
			Extra:     rapid.IntRange(0, 60).Draw(rt, "extra"),
			StaleTip:  rapid.IntRange(0, 3).Draw(rt, "stale") == 0,
			Second:    rapid.IntRange(0, 2).Draw(rt, "second") == 0,
			FollowUps: rapid.IntRange(2, 12).Draw(rt, "followUps"),
			Rogue:     rapid.Bool().Draw(rt, "rogue"),
		}
		if rapid.IntRange(0, 7).Draw(rt, "bulky") == 0 {
			p.Bulky = rapid.IntRange(215, 260).Draw(rt, "bulkyN")
		}
		seed := fmt.Sprintf("C07-%d-%d", shard(), caseNo)
		m, log, err := c07Run(rt, p, seed)
		if m != nil && m.w != nil {
			defer func() {
				if m.stuck == nil {
					m.w.Close()
				}
			}()
		}
		if err != nil {
			st.note("case discarded: %v", err)
			st.label("discarded")
			rt.Skip("build failed")
		}
		st.eval(1)
		for k, v := range m.labels {
			st.labelN(k, int64(v))
		}
		if p.Second {
			st.label("plan:second-truncation")
		}
		if p.StaleTip {
			st.label("plan:stale-tip")
		}
		if m.labels["c07:spice-vertices-moved"] > 0 {
			st.nontrivial(fp64(fmt.Sprintf("%+v", m.w.Ops)))
			st.sample(map[string]any{"plan": p, "log": trimLog(log, 12)})
		}
		trace := map[string]any{"plan": p, "seed": seed, "log": log, "ops": compactOps(m.w.Ops)}
		for _, v := range m.viol {
			if v.Prop != "C07" {
				st.label("other-property-violation:" + v.Prop + ":" + v.Sig)
				continue
			}
			if st.report(v.Sig, v.Msg, trace) {
				rt.Fatalf("C07 violated (%s): %s\nhistory:\n%s", v.Sig, v.Msg, strings.Join(log, "\n"))
			}
		}
	})
}

// compactOps drops the thousands of filler-internal entries from a trace.
func compactOps(ops []sim.Op) []sim.Op {
	if len(ops) <= 400 {
		return ops
	}
	return append(append([]sim.Op{}, ops[:200]...), ops[len(ops)-200:]...)
}

var _ = accountant.ErrBreak
var _ = spice.New
