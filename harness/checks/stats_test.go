package checks

import (
	"bufio"
	"encoding/json"
	"fmt"
	"hash/fnv"
	"os"
	"path/filepath"
	"sort"
	"strconv"
	"strings"
	"sync"
	"testing"
	"time"
	"verif/harness/sim"
)

// Shared bookkeeping for every check: what was generated, what was non-trivial, known findings hit,
// violations with replay files. The driver (bin/vcheck) merges the per-shard files into evidence.

const fpCap = 400_000

type violation struct {
	Sig    string `json:"sig"`
	Msg    string `json:"msg"`
	Replay string `json:"replay"`
}

type stats struct {
	mu           sync.Mutex
	Property     string               `json:"property"`
	Shard        int                  `json:"shard"`
	Evaluations  int64                `json:"evaluations"`
	FP           map[uint64]struct{}  `json:"-"`
	FPList       []uint64             `json:"fingerprints"`
	FPCapped     bool                 `json:"fp_capped"`
	EnumDist     int64                `json:"enumerated_distinct_nontrivial"`
	Labels       map[string]int64     `json:"labels"`
	Samples      []any                `json:"samples"`
	Known        map[string]int64     `json:"known_hits"`
	KnownMsg     map[string]string    `json:"known_msg"`
	Violations   map[string]violation `json:"violations"`
	Excluded     int64                `json:"excluded"`
	Exhaustive   bool                 `json:"exhaustive"`
	Rule         string               `json:"rule"`
	Notes        []string             `json:"notes"`
	Done         bool                 `json:"done"`
	Inconclusive string               `json:"inconclusive"`
	WallS        float64              `json:"wall_s"`
	start        time.Time
	known        map[string]bool
	maxSamples   int
}

func envInt(name string, def int) int {
	if v := os.Getenv(name); v != "" {
		if n, err := strconv.Atoi(v); err == nil {
			return n
		}
	}
	return def
}

func tier() string {
	if os.Getenv("VERIF_TIER") == "thorough" {
		return "thorough"
	}
	return "quick"
}

func thorough() bool { return tier() == "thorough" }

func shard() int   { return envInt("VERIF_SHARD", 0) }
func nshards() int { return envInt("VERIF_NSHARDS", 1) }

// scale picks a size for the tier.
func scale(quick, thoroughN int) int {
	if thorough() {
		return thoroughN
	}
	return quick
}

func newStats(t testing.TB, property, rule string) *stats {
	s := &stats{
		Property:   property,
		Shard:      shard(),
		FP:         map[uint64]struct{}{},
		Labels:     map[string]int64{},
		Known:      map[string]int64{},
		KnownMsg:   map[string]string{},
		Violations: map[string]violation{},
		Rule:       rule,
		start:      time.Now(),
		known:      loadKnown(property),
		maxSamples: 6,
	}
	t.Cleanup(func() { s.Done = true; s.flush() })
	activeStats = s
	sim.OnWedge = wedgeHandler
	startDeadman()
	return s
}

var deadmanOnce sync.Once

// startDeadman: cases stop being started at the soft deadline; if the process is still busy at 80 % of its hard
// timeout (VERIF_DEADMAN, set by the driver) one case is not returning. The deadman then ends the process in an orderly
// way instead of leaving it to be killed without statistics: for C08, and only if the goroutine profiles confirm that
// a call made by the harness is parked for good inside the node, that is a violation; otherwise what was explored so
// far stands and the unfinished case is recorded as not decided.
func startDeadman() {
	deadmanOnce.Do(func() {
		var at int64
		fmt.Sscan(os.Getenv("VERIF_DEADMAN"), &at)
		if at <= 0 {
			return
		}
		go func() {
			time.Sleep(time.Until(time.Unix(at, 0)))
			s := activeStats
			if s == nil || s.Done {
				return
			}
			ok, stacks := sim.ConfirmStuck(5, 400*time.Millisecond)
			if ok && s.Property == "C08" {
				s.reportOnce("node-wedged", "a call into the node had not returned at 80 % of the process's time limit and every goroutine inside the node is parked, unchanged over 5 profiles:\n"+stacks, map[string]string{"by": "deadman"})
			} else {
				s.label("deadman:a-case-had-not-returned-at-80%-of-the-time-limit(not-decided)")
				s.note("deadman: the process was still inside one case at 80 %% of its time limit (node parked for good: %v); that case is not decided, the statistics cover what was explored before", ok)
			}
			s.mu.Lock()
			s.Done = true
			s.flushLocked()
			s.mu.Unlock()
			os.Exit(0)
		}()
	})
}

var activeStats *stats

// wedgeHandler: one of the harness's hook calls into the node never returned (see sim.OnWedge). For C08 that is the
// property at stake and - when the goroutine profiles confirm that every goroutine inside the node is parked - a
// violation; for every other check it means the check cannot go on (inconclusive). Either way the process ends here
// instead of hanging until its hard timeout.
func wedgeHandler(what string, confirmed bool, stacks string) {
	if s := activeStats; s != nil {
		if confirmed && s.Property == "C08" {
			s.reportOnce("node-wedged", fmt.Sprintf("the node stopped answering (%s never returned) and every goroutine inside it is parked, unchanged over 5 profiles:\n%s", what, stacks), map[string]string{"hook": what})
		} else {
			s.inconclusive(fmt.Sprintf("the node stopped answering (%s never returned; parked for good: %v) - C08's concern, this check cannot continue", what, confirmed))
		}
		s.flush()
	}
	os.Exit(3)
}

// loadKnown reads the committed known-findings file: lines `finding: property=Cxx sig=<sig> :: text`.
func loadKnown(property string) map[string]bool {
	m := map[string]bool{}
	p := os.Getenv("VERIF_KNOWN")
	if p == "" {
		p = "/verif/known-findings.txt"
	}
	f, err := os.Open(p)
	if err != nil {
		return m
	}
	defer f.Close()
	sc := bufio.NewScanner(f)
	for sc.Scan() {
		line := strings.TrimSpace(sc.Text())
		if !strings.HasPrefix(line, "finding:") {
			continue
		}
		fields := strings.Fields(line)
		var prop, sig string
		for _, fl := range fields {
			if strings.HasPrefix(fl, "property=") {
				prop = strings.TrimPrefix(fl, "property=")
			}
			if strings.HasPrefix(fl, "sig=") {
				sig = strings.TrimPrefix(fl, "sig=")
			}
		}
		if prop == property && sig != "" {
			m[sig] = true
		}
	}
	return m
}

func (s *stats) isKnown(sig string) bool { return s.known[sig] }

func (s *stats) eval(n int64) {
	s.mu.Lock()
	s.Evaluations += n
	s.mu.Unlock()
}

func (s *stats) label(l string) {
	s.mu.Lock()
	s.Labels[l]++
	s.mu.Unlock()
}

func (s *stats) labelN(l string, n int64) {
	s.mu.Lock()
	s.Labels[l] += n
	s.mu.Unlock()
}

func fp64(parts ...any) uint64 {
	h := fnv.New64a()
	for _, p := range parts {
		fmt.Fprintf(h, "%v|", p)
	}
	return h.Sum64()
}

// nontrivial records one non-trivial case by the fingerprint of its canonical descriptor.
func (s *stats) nontrivial(fp uint64) {
	s.mu.Lock()
	if len(s.FP) < fpCap {
		s.FP[fp] = struct{}{}
	} else {
		s.FPCapped = true
	}
	s.mu.Unlock()
}

// enumNontrivial counts non-trivial cases that are distinct by construction (each tuple of an enumeration once).
func (s *stats) enumNontrivial(n int64) {
	s.mu.Lock()
	s.EnumDist += n
	s.mu.Unlock()
}

func (s *stats) sample(v any) {
	s.mu.Lock()
	if len(s.Samples) < s.maxSamples {
		s.Samples = append(s.Samples, v)
	}
	s.mu.Unlock()
}

func (s *stats) note(f string, a ...any) {
	s.mu.Lock()
	if len(s.Notes) < 40 {
		s.Notes = append(s.Notes, fmt.Sprintf(f, a...))
	}
	s.mu.Unlock()
}

func (s *stats) exclude(n int64) {
	s.mu.Lock()
	s.Excluded += n
	s.mu.Unlock()
}

func replayDir(property string) string {
	d := os.Getenv("VERIF_REPLAY_DIR")
	if d == "" {
		d = filepath.Join(os.TempDir(), "verif-replays", property)
	}
	os.MkdirAll(d, 0o755)
	return d
}

func sanitize(sig string) string {
	var b strings.Builder
	for _, r := range sig {
		if (r >= 'a' && r <= 'z') || (r >= 'A' && r <= 'Z') || (r >= '0' && r <= '9') || r == '-' || r == '_' || r == '.' {
			b.WriteRune(r)
		} else {
			b.WriteRune('_')
		}
	}
	out := b.String()
	if len(out) > 80 {
		out = out[:80]
	}
	return out
}

// report classifies a failing case. It returns true if the failure is a NEW violation (caller should fail the
// case so the library shrinks it), false if it matches a known finding (caller continues searching).
// The replay payload is written on every call for a new violation; during shrinking the last (smallest) wins.
func (s *stats) report(sig, msg string, replay any) bool {
	return s.reportX(sig, msg, replay, true)
}

// reportOnce is report for enumerations (no shrinking): only the first case per signature is written out.
func (s *stats) reportOnce(sig, msg string, replay any) bool {
	return s.reportX(sig, msg, replay, false)
}

func (s *stats) reportX(sig, msg string, replay any, overwrite bool) bool {
	s.mu.Lock()
	defer s.mu.Unlock()
	if s.known[sig] {
		s.Known[sig]++
		if _, ok := s.KnownMsg[sig]; !ok {
			s.KnownMsg[sig] = msg
		}
		return false
	}
	s.Labels["violating-cases"]++
	if _, seen := s.Violations[sig]; seen && !overwrite {
		return true
	}
	path := filepath.Join(replayDir(s.Property), fmt.Sprintf("%s-s%d-%s.json", s.Property, s.Shard, sanitize(sig)))
	payload := map[string]any{"property": s.Property, "sig": sig, "msg": msg, "case": replay}
	if b, err := json.MarshalIndent(payload, "", " "); err == nil {
		os.WriteFile(path, b, 0o644)
	}
	_, seen := s.Violations[sig]
	s.Violations[sig] = violation{Sig: sig, Msg: msg, Replay: path}
	if !seen {
		s.flushLocked()
	}
	return true
}

func (s *stats) inconclusive(why string) {
	s.mu.Lock()
	s.Inconclusive = why
	s.mu.Unlock()
}

func (s *stats) flush() {
	s.mu.Lock()
	defer s.mu.Unlock()
	s.flushLocked()
}

func (s *stats) flushLocked() {
	p := os.Getenv("VERIF_STATS")
	if p == "" {
		return
	}
	s.FPList = s.FPList[:0]
	for k := range s.FP {
		s.FPList = append(s.FPList, k)
	}
	sort.Slice(s.FPList, func(i, j int) bool { return s.FPList[i] < s.FPList[j] })
	s.WallS = time.Since(s.start).Seconds()
	b, err := json.Marshal(s)
	if err != nil {
		return
	}
	tmp := p + ".tmp"
	if os.WriteFile(tmp, b, 0o644) == nil {
		os.Rename(tmp, p)
	}
}

// loadReplay reads the case payload of a replay file into v.
func loadReplay(t testing.TB, v any) {
	p := os.Getenv("VERIF_REPLAY_FILE")
	if p == "" {
		t.Skip("VERIF_REPLAY_FILE not set")
	}
	b, err := os.ReadFile(p)
	if err != nil {
		t.Fatalf("replay file: %v", err)
	}
	var wrap struct {
		Case json.RawMessage `json:"case"`
	}
	if err := json.Unmarshal(b, &wrap); err != nil {
		t.Fatalf("replay file: %v", err)
	}
	if err := json.Unmarshal(wrap.Case, v); err != nil {
		t.Fatalf("replay case: %v", err)
	}
}

// ---------- process budget ----------

// softDeadline is set by the driver (VERIF_SOFT_DEADLINE, unix seconds) well before the process's hard timeout: once
// it has passed, remaining generated cases are not run (they return at once and are labelled), so that a loaded
// machine ends a check early with what it explored instead of hitting the hard timeout. Never a verdict.
var softDeadline = func() time.Time {
	v := os.Getenv("VERIF_SOFT_DEADLINE")
	if v == "" {
		return time.Time{}
	}
	var n int64
	fmt.Sscan(v, &n)
	if n <= 0 {
		return time.Time{}
	}
	return time.Unix(n, 0)
}()

func pastSoftDeadline(st *stats) bool {
	if softDeadline.IsZero() || time.Now().Before(softDeadline) {
		return false
	}
	if st != nil {
		st.label("case-not-run:wall-clock-budget-of-process-used-up")
	}
	return true
}

// outOfBudget: wall-clock budget or the per-process world budget (memory) is used up.
func outOfBudget(st *stats) bool {
	if worldsMade >= maxWorlds() {
		if st != nil {
			st.label("case-not-run:world-budget-of-process-used-up")
		}
		return true
	}
	return pastSoftDeadline(st)
}
