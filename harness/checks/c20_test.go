package checks

import (
	"bytes"
	"crypto/ed25519"
	"encoding/hex"
	"fmt"
	"os"
	"path/filepath"
	"testing"

	"github.com/bartossh/Computantis/src/aeswrapper"
	"github.com/bartossh/Computantis/src/fileoperations"
	"github.com/bartossh/Computantis/src/wallet"
	"pgregory.net/rapid"
)

// C20 — a wallet file yields the original wallet or an error, never anything else.

type c20Case struct {
	Seed    string `json:"seed_hex"`    // 32 byte ed25519 seed
	Key     string `json:"key_hex"`     // key used to save
	ReadKey string `json:"readkey_hex"` // key used to read (config string, may be non-hex)
	File    string `json:"file_hex"`    // exact file content that is read back
	Kind    string `json:"kind"`
}

func walletFromSeed(seed []byte) wallet.Wallet {
	priv := ed25519.NewKeyFromSeed(seed)
	return wallet.Wallet{Private: priv, Public: priv.Public().(ed25519.PublicKey)}
}

func workDir(t testing.TB) string {
	d := os.Getenv("VERIF_WORK")
	if d == "" {
		d = t.TempDir()
	}
	return d
}

// c20Save encrypts the wallet with the real SaveWallet and returns the file bytes.
func c20Save(dir string, w *wallet.Wallet, keyHex string) ([]byte, error) {
	p := filepath.Join(dir, "wallet.sav")
	h := fileoperations.New(fileoperations.Config{WalletPath: p, WalletPasswd: keyHex}, aeswrapper.New())
	if err := h.SaveWallet(w); err != nil {
		return nil, err
	}
	return os.ReadFile(p)
}

// c20Read reads file content with the real ReadWallet under recover.
func c20Read(dir string, file []byte, keyHex string) (w wallet.Wallet, err error, panicked any) {
	p := filepath.Join(dir, "wallet.rd")
	if e := os.WriteFile(p, file, 0o644); e != nil {
		return w, e, nil
	}
	h := fileoperations.New(fileoperations.Config{WalletPath: p, WalletPasswd: keyHex}, aeswrapper.New())
	func() {
		defer func() { panicked = recover() }()
		w, err = h.ReadWallet()
	}()
	return
}

func c20Judge(dir string, c c20Case, saved []byte) (sig, msg string) {
	seed, _ := hex.DecodeString(c.Seed)
	orig := walletFromSeed(seed)
	file, _ := hex.DecodeString(c.File)
	w, err, pn := c20Read(dir, file, c.ReadKey)
	if pn != nil {
		return "panic:" + c.Kind, fmt.Sprintf("ReadWallet panicked on a %d-byte file (%s): %v", len(file), c.Kind, pn)
	}
	same := bytes.Equal(w.Private, orig.Private) && bytes.Equal(w.Public, orig.Public)
	unchanged := bytes.Equal(file, saved) && c.ReadKey == c.Key
	if unchanged {
		if err != nil || !same || w.Address() != orig.Address() {
			return "roundtrip", fmt.Sprintf("saving and reading back with the same key gave err=%v same=%v", err, same)
		}
		return "", ""
	}
	if err == nil && !same {
		return "different-wallet:" + c.Kind, fmt.Sprintf("damaged file (%s) read back as a DIFFERENT wallet %s", c.Kind, w.Address())
	}
	if err == nil && same {
		// A damaged file or wrong key must give an error; identical wallet is tolerated only if file and key decode to the same bytes.
		kb1, e1 := hex.DecodeString(c.ReadKey)
		kb2, _ := hex.DecodeString(c.Key)
		if bytes.Equal(file, saved) && e1 == nil && bytes.Equal(kb1, kb2) {
			return "", "" // e.g. upper-case hex of the same key
		}
		return "damage-accepted:" + c.Kind, fmt.Sprintf("damaged file or wrong key (%s) was read without error", c.Kind)
	}
	return "", ""
}

func TestC20(t *testing.T) {
	st := newStats(t, "C20", "cases = (wallet seed, 16/32-byte key, file bytes read back, read key): for each sampled wallet ALL truncation lengths 0..len, ALL byte positions x masks {0x01,0x80,0xFF}, a wrong-key catalogue, PEM round trip; rapid adds multi-byte damage, insertions, random wrong keys; non-trivial = file or key differs from what was saved; distinct by (seed,key,file,readkey) fingerprint")
	dir := workDir(t)
	sh, n := shard(), nshards()
	nWallets := scale(4, 24)

	t.Run("enum", func(t *testing.T) {
		failed := false
		check := func(c c20Case, saved []byte) {
			st.eval(1)
			if c.File != hex.EncodeToString(saved) || c.ReadKey != c.Key {
				st.enumNontrivial(1)
			}
			if sig, msg := c20Judge(dir, c, saved); sig != "" {
				if st.reportOnce(sig, msg, c) {
					failed = true
				}
			}
		}
		for wi := 0; wi < nWallets; wi++ {
			if wi%n != sh {
				continue
			}
			seed := bytes.Repeat([]byte{byte(wi*37 + 1)}, 32)
			seed[0], seed[31] = byte(wi), byte(wi>>3)
			klen := 32
			if wi%2 == 1 {
				klen = 16
			}
			key := bytes.Repeat([]byte{byte(0xA0 + wi)}, klen)
			key[1] = byte(wi)
			keyHex := hex.EncodeToString(key)
			w := walletFromSeed(seed)
			saved, err := c20Save(dir, &w, keyHex)
			if err != nil {
				t.Fatalf("save: %v", err)
			}
			base := c20Case{Seed: hex.EncodeToString(seed), Key: keyHex, ReadKey: keyHex}
			// all truncation lengths
			for l := 0; l <= len(saved); l++ {
				c := base
				c.File, c.Kind = hex.EncodeToString(saved[:l]), "truncate"
				if l == len(saved) {
					c.Kind = "intact"
				}
				check(c, saved)
			}
			// all single byte corruptions
			for i := range saved {
				for _, m := range []byte{0x01, 0x80, 0xFF} {
					f := append([]byte(nil), saved...)
					f[i] ^= m
					c := base
					c.File, c.Kind = hex.EncodeToString(f), "flip"
					check(c, saved)
				}
			}
			// wrong keys
			for bit := 0; bit < klen*8; bit++ {
				k2 := append([]byte(nil), key...)
				k2[bit/8] ^= 1 << (bit % 8)
				c := base
				c.File, c.ReadKey, c.Kind = hex.EncodeToString(saved), hex.EncodeToString(k2), "wrongkey-bit"
				check(c, saved)
			}
			for _, k2 := range []string{
				hex.EncodeToString(make([]byte, 16)), hex.EncodeToString(make([]byte, 32)),
				hex.EncodeToString(key[:16]), hex.EncodeToString(append(append([]byte(nil), key...), key...)[:32]),
				"", "zz", keyHex[:len(keyHex)-1], keyHex + "00", hex.EncodeToString(make([]byte, 24)),
				// the other key size built from this key: zero-padded behind / in front, or its first half zero-padded
				hex.EncodeToString(append(append([]byte(nil), key[:16]...), make([]byte, 16)...)),
				hex.EncodeToString(append(make([]byte, 16), key[:16]...)),
				hex.EncodeToString(append(append([]byte(nil), key[:16]...), key[:16]...)),
			} {
				if k2 == keyHex {
					continue
				}
				c := base
				c.File, c.ReadKey, c.Kind = hex.EncodeToString(saved), k2, "wrongkey-catalogue"
				check(c, saved)
			}
			st.sample(map[string]any{"kind": "enumerated wallet", "seed": base.Seed, "key_len": klen, "file_len": len(saved)})

			// PEM round trip
			pp := filepath.Join(dir, "wallet.pem")
			h := fileoperations.New(fileoperations.Config{WalletPemPath: pp}, aeswrapper.New())
			st.eval(1)
			if err := h.SaveToPem(&w); err != nil {
				t.Fatalf("pem save: %v", err)
			}
			w2, err := h.ReadFromPem()
			if err != nil || !bytes.Equal(w2.Private, w.Private) || !bytes.Equal(w2.Public, w.Public) || w2.Address() != w.Address() {
				if st.reportOnce("pem-roundtrip", fmt.Sprintf("PEM round trip: err=%v", err), base) {
					failed = true
				}
			}
		}
		st.Exhaustive = true
		if failed {
			t.Errorf("C20: violations in enumeration")
		}
	})

	t.Run("random", func(t *testing.T) {
		rapid.Check(t, func(rt *rapid.T) {
			if pastSoftDeadline(st) {
				return
			}
			seed := rapid.SliceOfN(rapid.Byte(), 32, 32).Draw(rt, "seed")
			klen := rapid.SampledFrom([]int{16, 32}).Draw(rt, "klen")
			key := rapid.SliceOfN(rapid.Byte(), klen, klen).Draw(rt, "key")
			keyHex := hex.EncodeToString(key)
			w := walletFromSeed(seed)
			// The path may already hold an older, longer or shorter file (a previous wallet, unrelated bytes): saving
			// replaces it entirely.
			// (length drawn on its own: rapid's slice generator strongly prefers short slices, and only a stale file
			// LONGER than the 175-byte wallet file can leave a tail behind)
			staleLen := rapid.SampledFrom([]int{0, 1, 60, 174, 175, 176, 187, 240, 400, 700, 5000}).Draw(rt, "staleLen")
			stale := bytes.Repeat([]byte{rapid.Byte().Draw(rt, "staleByte")}, staleLen)
			if rapid.Bool().Draw(rt, "overStale") {
				for _, name := range []string{"wallet.sav", "wallet.pem", "wallet.pem.pub"} {
					if e := os.WriteFile(filepath.Join(dir, name), stale, 0o644); e != nil {
						rt.Fatalf("stale file: %v", e)
					}
				}
			}
			saved, err := c20Save(dir, &w, keyHex)
			if err != nil {
				rt.Fatalf("save: %v", err)
			}
			c := c20Case{Seed: hex.EncodeToString(seed), Key: keyHex, ReadKey: keyHex}
			f := append([]byte(nil), saved...)
			damage := rapid.IntRange(0, 6).Draw(rt, "damage")
			if damage == 6 {
				// PEM round trip of a random wallet, possibly over stale files
				pp := filepath.Join(dir, "wallet.pem")
				h := fileoperations.New(fileoperations.Config{WalletPemPath: pp}, aeswrapper.New())
				st.eval(1)
				st.nontrivial(fp64(c.Seed, "pem", hex.EncodeToString(stale)))
				var w2 wallet.Wallet
				var pn any
				func() {
					defer func() { pn = recover() }()
					if err = h.SaveToPem(&w); err == nil {
						w2, err = h.ReadFromPem()
					}
				}()
				if pn != nil || err != nil || !bytes.Equal(w2.Private, w.Private) || !bytes.Equal(w2.Public, w.Public) || w2.Address() != w.Address() {
					c.Kind = "pem"
					if st.report("pem-roundtrip", fmt.Sprintf("PEM round trip of a random wallet: err=%v panic=%v", err, pn), c) {
						rt.Fatalf("C20 violated: PEM round trip err=%v panic=%v", err, pn)
					}
				}
				st.sample(map[string]any{"kind": "pem", "stale_len": len(stale)})
				return
			}
			switch damage {
			case 0:
				c.Kind = "intact"
			case 1:
				c.Kind = "multi-flip"
				k := rapid.IntRange(1, 8).Draw(rt, "k")
				for j := 0; j < k; j++ {
					i := rapid.IntRange(0, len(f)-1).Draw(rt, "i")
					f[i] ^= rapid.ByteRange(1, 255).Draw(rt, "m")
				}
			case 2:
				c.Kind = "insert"
				i := rapid.IntRange(0, len(f)).Draw(rt, "i")
				ins := rapid.SliceOfN(rapid.Byte(), 1, 40).Draw(rt, "ins")
				f = append(f[:i:i], append(ins, f[i:]...)...)
			case 3:
				c.Kind = "cut-middle"
				i := rapid.IntRange(0, len(f)-1).Draw(rt, "i")
				j := rapid.IntRange(i+1, len(f)).Draw(rt, "j")
				f = append(f[:i:i], f[j:]...)
			case 4:
				c.Kind = "wrongkey-random"
				k2len := rapid.SampledFrom([]int{16, 32, 16, 32, 0, 8, 24, 33}).Draw(rt, "k2len")
				k2 := rapid.SliceOfN(rapid.Byte(), k2len, k2len).Draw(rt, "k2")
				c.ReadKey = hex.EncodeToString(k2)
			case 5:
				c.Kind = "garbage"
				f = rapid.SliceOfN(rapid.Byte(), 0, 64).Draw(rt, "garbage")
			}
			c.File = hex.EncodeToString(f)
			st.eval(1)
			if !bytes.Equal(f, saved) || c.ReadKey != c.Key {
				st.nontrivial(fp64(c.Seed, c.Key, c.File, c.ReadKey))
			}
			if sig, msg := c20Judge(dir, c, saved); sig != "" {
				if st.report(sig, msg, c) {
					rt.Fatalf("C20 violated: %s", msg)
				}
			}
			st.sample(map[string]any{"kind": c.Kind, "file_len": len(f), "key_len": klen})
		})
	})
}

func TestReplayC20(t *testing.T) {
	var c c20Case
	loadReplay(t, &c)
	dir := t.TempDir()
	seed, _ := hex.DecodeString(c.Seed)
	w := walletFromSeed(seed)
	_ = w
	// "saved" is unknown at replay time (random nonce); a replayed file is by construction a damaged one unless kind=intact.
	file, _ := hex.DecodeString(c.File)
	saved := file
	if c.Kind != "intact" {
		saved = nil
	}
	if sig, msg := c20Judge(dir, c, saved); sig != "" {
		t.Fatalf("VIOLATION reproduced sig=%s: %s", sig, msg)
	}
}
