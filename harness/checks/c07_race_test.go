package checks

import (
	"fmt"
	"math/big"
	"sync"
	"sync/atomic"
	"testing"
	"time"

	"github.com/bartossh/Computantis/src/spice"

	"verif/harness/ref"
	"verif/harness/sim"
)

// C07, "truncation racing with proposals and gossip": while the real truncate runs on a DAG deep enough to be cut,
// reader goroutines keep asking for the balance of wallets nobody touches, and proposer goroutines keep submitting a
// spend that exceeds its wallet by one unit plus harmless data vertices. Whatever the interleaving: every balance
// answered equals the balance before the truncation (truncation changes no wallet's balance), and the overdrawing
// spend is never confirmed (later transfers are validated against the same funds as before).
func c07Race(t *testing.T, st *stats, idx int) {
	w, err := sim.NewWorld(sim.Config{Nodes: 1, Users: 5, GenesisC: 100000, Seed: fmt.Sprintf("c07-race-%d-%d", shard(), idx)})
	if err != nil {
		st.note("race: %v", err)
		return
	}
	defer w.Close()
	worldsMade++
	book := w.Nodes[0].Book
	for i := 1; i <= 5; i++ {
		if r := w.ProposeTx(0, w.MakeTx(0, i, spice.New(uint64(100+i), uint64(i)), 0)); r.Err != nil {
			st.note("race funding: %v", r.Err)
			return
		}
	}
	for i := 0; i < 6; i++ {
		w.ProposeTx(0, w.MakeTx(1+i%2, 2-i%2, spice.New(1, 0), 0)) // users 0 and 1 trade; users 2,3,4 stay quiet
	}
	if err := w.Filler(0, 1040+idx%7*9, false); err != nil {
		st.note("race filler: %v", err)
		return
	}
	quiet := []int{3, 4, 5}
	pre := map[int]spice.Melange{}
	for k := 1; k <= 5; k++ {
		b, err := w.Balance(0, w.Wallets[k].Addr)
		if err != nil {
			st.note("race pre-balance: %v", err)
			return
		}
		pre[k] = b
	}
	var truncStart, truncEnd atomic.Int64
	var mismatch atomic.Value
	var readsOverlap, propsOverlap, reads, props atomic.Int64
	overlaps := func(s, e time.Time) bool {
		ts, te := truncStart.Load(), truncEnd.Load()
		if ts == 0 {
			return false
		}
		if te == 0 {
			te = time.Now().UnixNano()
		}
		return s.UnixNano() < te && e.UnixNano() > ts
	}
	stop := make(chan struct{})
	var wg sync.WaitGroup
	for g := 0; g < 3; g++ {
		wg.Add(1)
		go func(g int) {
			defer wg.Done()
			defer func() { recover() }()
			for i := 0; ; i++ {
				select {
				case <-stop:
					return
				default:
				}
				k := quiet[(i+g)%len(quiet)]
				s := time.Now()
				b, err := book.CalculateBalance(bg, w.Wallets[k].Addr)
				e := time.Now()
				reads.Add(1)
				if overlaps(s, e) {
					readsOverlap.Add(1)
				}
				if err == nil && b.Spice != pre[k] && mismatch.Load() == nil {
					mismatch.Store(fmt.Sprintf("while truncate was running (call %v after its start), the balance of untouched wallet %s was answered as %v; before the truncation it was %v", time.Duration(s.UnixNano()-truncStart.Load()), w.Wallets[k].Name, b.Spice, pre[k]))
				}
			}
		}(g)
	}
	over := pre[2]
	over.Currency++ // one unit more than user1 owns
	for g := 0; g < 2; g++ {
		wg.Add(1)
		go func(g int) {
			defer wg.Done()
			defer func() { recover() }()
			for i := 0; ; i++ {
				select {
				case <-stop:
					return
				default:
				}
				s := time.Now()
				if g == 0 {
					tx := w.MakeTx(2, 0, over, 0)
					book.CreateLeaf(bg, &tx)
				} else {
					tx := w.MakeTx(1, 0, spice.Melange{}, 6)
					book.CreateLeaf(bg, &tx)
				}
				props.Add(1)
				if overlaps(s, time.Now()) {
					propsOverlap.Add(1)
				}
			}
		}(g)
	}
	time.Sleep(time.Duration(3+idx%5) * time.Millisecond)
	truncStart.Store(time.Now().UnixNano())
	terr := w.Truncate(0)
	truncEnd.Store(time.Now().UnixNano())
	time.Sleep(5 * time.Millisecond)
	close(stop)
	done := make(chan struct{})
	go func() { wg.Wait(); close(done) }()
	select {
	case <-done:
	case <-time.After(sim.CallTimeout):
		if ok, stacks := sim.ConfirmStuck(5, 400*time.Millisecond); ok {
			st.reportOnce("race-wedged", "readers/proposers racing with truncate never returned:\n"+stacks, map[string]string{"scenario": "race"})
			t.Errorf("race wedged")
		} else {
			st.label("race:inconclusive-slow")
		}
		return
	}
	st.eval(1)
	st.label("plan:race-with-truncate")
	st.labelN("race:balance-reads", reads.Load())
	st.labelN("race:balance-reads-overlapping-truncate", readsOverlap.Load())
	st.labelN("race:proposals", props.Load())
	st.labelN("race:proposals-overlapping-truncate", propsOverlap.Load())
	if terr != nil {
		st.note("race: truncate returned %v", terr)
		st.label("race:truncate-error")
		return
	}
	// settle: a few more data vertices so that whatever the race left as a tentative tip is judged
	for i := 0; i < 8; i++ {
		w.ProposeTx(0, w.MakeTx(1, 0, spice.Melange{}, 5))
	}
	snap, err := w.Snapshot(w.Nodes[0])
	if err != nil {
		st.note("race snapshot: %v", err)
		return
	}
	if len(snap.Stored) > 0 && readsOverlap.Load()+propsOverlap.Load() > 0 {
		st.nontrivial(fp64("race", shard(), idx, len(snap.Stored), reads.Load()))
		if idx == 0 {
			st.sample(map[string]any{"scenario": "race-with-truncate", "vertices_checkpointed": len(snap.Stored), "balance_reads": reads.Load(), "reads_overlapping": readsOverlap.Load(), "proposals": props.Load(), "proposals_overlapping": propsOverlap.Load()})
		}
	}
	if m := mismatch.Load(); m != nil {
		st.reportOnce("balance-changed-while-truncating", m.(string), map[string]string{"scenario": "race"})
		t.Errorf("balance changed while truncating")
	}
	for _, k := range quiet {
		b, err := w.Balance(0, w.Wallets[k].Addr)
		if err != nil || b != pre[k] {
			st.reportOnce("balance-changed", fmt.Sprintf("after truncate raced with readers and proposers the balance of untouched wallet %s is %v (err %v), before it was %v", w.Wallets[k].Name, b, err, pre[k]), map[string]string{"scenario": "race"})
			t.Errorf("balance changed")
		}
	}
	confirmed := ref.Union(snap.LiveSet(), snap.StoredSet())
	for tp := range snap.Tips() {
		delete(confirmed, tp)
	}
	in, out := w.Arch.Flow(confirmed, w.Wallets[2].Addr)
	if out.Cmp(in) > 0 {
		st.reportOnce("overdraft-confirmed-while-truncating", fmt.Sprintf("a spend of %v by user1 (who owned %v) submitted while truncate was running ended up confirmed: over all confirmed vertices the wallet received %s and spent %s", over, pre[2], in, new(big.Int).Set(out)), map[string]string{"scenario": "race"})
		t.Errorf("overdraft confirmed")
	}
	if w.Nodes[0].Log.FatalCount() > 0 {
		st.reportOnce("log-fatal", fmt.Sprintf("node logged Fatal during the race: %v", w.Nodes[0].Log.Fatals), map[string]string{"scenario": "race"})
		t.Errorf("fatal")
	}
}

// c07BigTurnover: one truncation over a ledger whose genesis supply is 2^64-2 units and in which almost all of it
// changes hands once: every single wallet's gross flow fits the amount type, but the flows of all wallets together
// do not. The checkpointed funds must still equal each wallet's net flow over the checkpointed vertices.
func c07BigTurnover(t *testing.T, st *stats) {
	w, err := sim.NewWorld(sim.Config{Nodes: 1, Users: 4, GenesisC: ^uint64(0) - 1, Seed: fmt.Sprintf("c07-turnover-%d", shard())})
	if err != nil {
		st.note("turnover: %v", err)
		return
	}
	defer w.Close()
	worldsMade++
	steps := []struct {
		from, to int
		amt      spice.Melange
	}{
		{0, 1, spice.New(^uint64(0)-11, 0)}, // genesis receiver hands (almost) everything to user0
		{1, 2, spice.New(50, 500)},
		{2, 3, spice.New(1, 1)},
		{1, 4, spice.New(0, 999_999_999_999_999_999)},
	}
	for _, s := range steps {
		if r := w.ProposeTx(0, w.MakeTx(s.from, s.to, s.amt, 0)); r.Err != nil {
			st.note("turnover: transfer refused: %v", r.Err)
			return
		}
		w.ProposeTx(0, w.MakeTx(1, 0, spice.Melange{}, 3)) // a data vertex on top confirms it
	}
	if err := w.Filler(0, 1030, false); err != nil {
		st.note("turnover filler: %v", err)
		return
	}
	if err := w.Truncate(0); err != nil {
		st.note("turnover: truncate returned %v", err)
		return
	}
	snap, err := w.Snapshot(w.Nodes[0])
	if err != nil {
		return
	}
	st.eval(1)
	st.label("plan:big-turnover")
	if len(snap.Stored) == 0 {
		return
	}
	st.nontrivial(fp64("turnover", shard(), len(snap.Stored)))
	stored := snap.StoredSet()
	for _, k := range w.Wallets {
		in, out := w.Arch.Flow(stored, k.Addr)
		net := new(big.Int).Sub(in, out)
		if net.Sign() < 0 {
			continue // the genesis issuer
		}
		got := new(big.Int)
		if f, ok := snap.Raw.Funds[k.Addr]; ok {
			got = ref.V(f)
		}
		if got.Cmp(net) != 0 {
			st.reportOnce("checkpoint-funds-wrong", fmt.Sprintf("supply 2^64-2, almost all of it transferred once: after the truncation the checkpointed funds of %s are %s; the net flow of the %d checkpointed vertices is %s", k.Name, got, len(stored), net), map[string]string{"scenario": "big-turnover"})
			t.Errorf("checkpoint funds wrong")
		}
	}
	all := ref.Union(snap.LiveSet(), stored)
	if len(snap.Tips()) == 1 {
		for _, k := range w.Wallets[:5] {
			in, out := w.Arch.Flow(all, k.Addr)
			want := new(big.Int).Sub(in, out)
			got, err := w.Balance(0, k.Addr)
			if err != nil || ref.V(got).Cmp(want) != 0 {
				st.reportOnce("balance-changed", fmt.Sprintf("supply 2^64-2, after the truncation the balance of %s is %v (err %v), over all vertices it is %s", k.Name, got, err, want), map[string]string{"scenario": "big-turnover"})
				t.Errorf("balance changed")
			}
		}
	}
}
