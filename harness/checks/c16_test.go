package checks

import (
	"bytes"
	"fmt"
	"strings"
	"sync"
	"testing"
	"time"

	"github.com/bartossh/Computantis/src/protobufcompiled"
	"github.com/bartossh/Computantis/src/spice"
	"github.com/bartossh/Computantis/src/transaction"
	"google.golang.org/protobuf/types/known/emptypb"
	"pgregory.net/rapid"

	"verif/harness/ref"
	"verif/harness/sim"
)

// C16 — contracts need the receiver; reads need proof of key ownership.

type c16Op struct {
	K       string `json:"k"`
	From    int    `json:"from"`
	To      int    `json:"to"`
	Kind    string `json:"kind"`    // propose: spice|contract|contract+spice|empty ; reads/confirm/reject variants
	Sig     string `json:"sig"`     // valid|wrongkey|bitflip
	Tx      int    `json:"tx"`      // index into the transactions proposed so far
	By      int    `json:"by"`      // acting wallet
	About   int    `json:"about"`   // address asked about
	Copies  int    `json:"copies"`  // concurrent copies
	Variant string `json:"variant"` // confirm/reject/read variants
}

type c16Case struct {
	Ops       []c16Op `json:"ops"`
	RealFlash bool    `json:"real_flash"`
}

type c16Model struct {
	awaiting  map[ref.Hash]transaction.Transaction
	tentative map[ref.Hash]bool // sealed in a tentative tip that a later validation may legally drop (unfunded issuer)
	sealed    map[ref.Hash]bool
	challenge map[string][]byte
	balSeen   map[string]map[string]bool // address -> set of reference balances seen during the case
}

const c16Clients = 5 // wallets 1..4 are funded users, wallet 5 is an unfunded user; plus node wallet and genesis receiver

func (m *c16Model) sealedOrTentative(tx transaction.Transaction, unfunded string) {
	if tx.IssuerAddress == unfunded && (tx.Spice.Currency != 0 || tx.Spice.SupplementaryCurrency != 0) {
		m.tentative[tx.Hash] = true
		return
	}
	m.sealed[tx.Hash] = true
}

var c16Labels = map[string]int{}

func c16Run(c c16Case, seed string) (sig, msg string, nontrivial bool, inconclusive string) {
	labels := c16Labels
	s, err := newSvc(seed, c16Clients, 4, c.RealFlash, 60)
	if err != nil {
		if s != nil {
			s.close()
		}
		return "", "", false, "setup: " + err.Error()
	}
	defer s.close()
	w := s.w
	nodeWallet := w.NodeWallet(0)
	wal := func(i int) *ref.Key {
		n := c16Clients + 2
		i = ((i % n) + n) % n
		switch {
		case i < c16Clients:
			return w.Wallets[1+i]
		case i == c16Clients:
			return w.Wallets[nodeWallet]
		default:
			return w.Wallets[0]
		}
	}
	base, err := s.ledgerTxs()
	if err != nil {
		return "", "", false, "snapshot: " + err.Error()
	}
	m := &c16Model{awaiting: map[ref.Hash]transaction.Transaction{}, tentative: map[ref.Hash]bool{}, sealed: map[ref.Hash]bool{}, challenge: map[string][]byte{}, balSeen: map[string]map[string]bool{}}
	var txs []transaction.Transaction
	ctx := bg

	refBalance := func(addr string) string {
		snap, err := w.Snapshot(w.Nodes[0])
		if err != nil {
			return "?"
		}
		set := ref.Union(snap.LiveSet(), snap.StoredSet())
		in, out := w.Arch.Flow(set, addr)
		return in.Sub(in, out).String()
	}
	noteBalances := func() {
		for i := 0; i < c16Clients+2; i++ {
			a := wal(i).Addr
			if m.balSeen[a] == nil {
				m.balSeen[a] = map[string]bool{}
			}
			m.balSeen[a][refBalance(a)] = true
		}
	}
	noteBalances()

	// invariant after every step
	check := func(step int, op c16Op) (string, string) {
		ledger, err := s.ledgerTxs()
		if err != nil {
			return "", ""
		}
		for h := range ledger {
			if _, ok := base[h]; ok {
				continue
			}
			if !m.sealed[h] && !m.tentative[h] {
				return "sealed-without-authorisation", fmt.Sprintf("step %d (%+v): transaction %x is in the ledger although the model never authorised sealing it", step, op, h[:4])
			}
		}
		for h := range m.sealed {
			if _, ok := ledger[h]; !ok {
				return "sealed-transaction-missing", fmt.Sprintf("step %d (%+v): transaction %x was reported sealed but is not in the ledger", step, op, h[:4])
			}
		}
		for i := 0; i < c16Clients+2; i++ {
			k := wal(i)
			got := s.awaitingOf(k.Addr)
			want := map[ref.Hash]bool{}
			for h, t := range m.awaiting {
				if t.IssuerAddress == k.Addr || t.ReceiverAddress == k.Addr {
					want[h] = true
				}
			}
			for h := range want {
				if !got[h] {
					return "awaiting-entry-lost", fmt.Sprintf("step %d (%+v): awaiting transaction %x vanished from %s's list", step, op, h[:4], k.Name)
				}
			}
			for h := range got {
				if !want[h] {
					return "awaiting-entry-unexpected", fmt.Sprintf("step %d (%+v): %s's awaiting list contains %x which the model does not hold as awaiting", step, op, k.Name, h[:4])
				}
			}
		}
		return "", ""
	}

	mutateSig := func(kind string, sigb []byte, other *ref.Key, message []byte) []byte {
		switch kind {
		case "wrongkey":
			_, b := other.Sign(message)
			return b
		case "bitflip":
			b := append([]byte(nil), sigb...)
			b[5] ^= 0x10
			return b
		}
		return sigb
	}

	for step, op := range c.Ops {
		switch op.K {
		case "propose":
			from, to := wal(op.From), wal(op.To)
			amt := spice.Melange{}
			data := 0
			switch op.Kind {
			case "spice":
				amt = spice.New(0, 1000+uint64(step))
			case "contract":
				data = 16 + step%7
			case "contract+spice":
				amt, data = spice.New(0, 500), 9
			}
			if op.Kind == "spice-to-cache-key" {
				// a pure spice transfer whose receiver "address" is a string that happens to be a key of the awaiting
				// cache (the receiver address is whatever the client signs): after sealing it the notary drops cached
				// balances under that string - no awaiting list may change
				rcv := "address-" + to.Addr
				if step%2 == 1 && len(txs) > 0 {
					rcv = fmt.Sprintf("trx-%x", txs[op.Tx%len(txs)].Hash[:])
				}
				tx := ref.MakeTx(fmt.Sprintf("c16 %d", step), spice.New(0, 700+uint64(step)), nil, rcv, from, w.Epoch.Add(time.Duration(step+1)*time.Hour))
				okK, pn := c16Parallel(1, func() (any, error) { return s.notary.Propose(ctx, protoTx(&tx)) })
				if pn != nil {
					return "panic:Propose", fmt.Sprintf("step %d: Propose panicked: %v", step, pn), nontrivial, ""
				}
				if okK > 0 {
					m.tentative[tx.Hash] = true // sealed in a tentative tip on the issuer signature alone, like any spice transfer
				}
				labels["spice-to-cache-key"]++
				time.Sleep(3 * time.Millisecond) // the notary drops the cached balances in a goroutine of its own
				break
			}
			tx := ref.MakeTx(fmt.Sprintf("c16 %d", step), amt, sim.DataBytes(data, int64(step)), to.Addr, from, w.Epoch.Add(time.Duration(step+1)*time.Hour))
			tx.IssuerSignature = mutateSig(op.Sig, tx.IssuerSignature, wal(op.From+1), ref.TxMessage(&tx))
			txs = append(txs, tx)
			copies := 1
			if op.Copies > 1 {
				copies = op.Copies
			}
			okN, pn := c16Parallel(copies, func() (any, error) { return s.notary.Propose(ctx, protoTx(&tx)) })
			if pn != nil {
				return "panic:Propose", fmt.Sprintf("step %d: Propose panicked: %v", step, pn), nontrivial, ""
			}
			validSig := op.Sig == "valid"
			switch {
			case !validSig:
				if okN > 0 {
					return "invalid-signature-accepted:Propose", fmt.Sprintf("step %d: Propose with a %s issuer signature succeeded", step, op.Sig), nontrivial, ""
				}
			case data > 0:
				if okN > 1 {
					return "awaiting-saved-twice", fmt.Sprintf("step %d: %d of %d concurrent identical contract proposals succeeded", step, okN, copies), nontrivial, ""
				}
				if okN == 1 {
					m.awaiting[tx.Hash] = tx
					labels["contract-awaiting"]++
				} else {
					labels["valid-request-refused"]++
				}
			case amt.Currency == 0 && amt.SupplementaryCurrency == 0:
				if okN > 0 {
					return "empty-transaction-accepted", fmt.Sprintf("step %d: a transaction with neither data nor spice was accepted", step), nontrivial, ""
				}
			default: // pure spice transfer: sealed on the issuer signature alone (node / genesis wallets excepted)
				forbidden := from.Addr == w.Wallets[nodeWallet].Addr
				if forbidden && okN > 0 {
					return "node-wallet-transfer-sealed", fmt.Sprintf("step %d: a transfer issued by the node's own wallet was sealed", step), nontrivial, ""
				}
				// A success seals the transfer in a tentative tip. A funded wallet's tiny transfer stays; an unfunded
				// wallet's one is dropped by the next validation (C01) - both are legal, so it is only "tentative".
				// Several concurrent copies may each report success if an earlier tentative vertex was dropped meanwhile;
				// the ledger itself holds the transaction at most once (checked by C03's scan in the invariant).
				if okN >= 1 {
					if from == w.Wallets[1+4] {
						m.tentative[tx.Hash] = true
					} else {
						m.sealed[tx.Hash] = true
					}
					labels["spice-sealed"]++
				} else if !forbidden {
					labels["valid-request-refused"]++
				}
			}
		case "confirm":
			if len(txs) == 0 {
				continue
			}
			tx := txs[op.Tx%len(txs)]
			receiver := ref.KeyByAddr(w.Wallets, tx.ReceiverAddress)
			aw, isAwaiting := m.awaiting[tx.Hash]
			_ = aw
			req := tx
			legit := false
			switch op.Variant {
			case "receiver":
				ref.CounterSign(&req, receiver)
				legit = true
			case "stranger":
				ref.CounterSign(&req, wal(op.By))
				legit = wal(op.By).Addr == tx.ReceiverAddress
			case "issuer-only":
				req.ReceiverSignature = []byte{}
			case "sig-of-other-tx":
				o := txs[(op.Tx+1)%len(txs)]
				_, req.ReceiverSignature = receiver.Sign(ref.TxMessage(&o))
				legit = o.Hash == tx.Hash
			case "bitflip":
				ref.CounterSign(&req, receiver)
				req.ReceiverSignature[7] ^= 1
			}
			issuerSigValid := ref.VerifySig(ref.TxMessage(&req), req.IssuerSignature, req.Hash, req.IssuerAddress)
			legit = legit && issuerSigValid
			copies := max(1, op.Copies)
			okN, pn := c16Parallel(copies, func() (any, error) { return s.notary.Confirm(ctx, protoTx(&req)) })
			if pn != nil {
				return "panic:Confirm", fmt.Sprintf("step %d: Confirm panicked: %v", step, pn), nontrivial, ""
			}
			if isAwaiting {
				nontrivial = true
			}
			if !legit && okN > 0 {
				return "invalid-signature-accepted:Confirm", fmt.Sprintf("step %d: Confirm variant %q (no valid receiver signature over the issuer-signed content) succeeded", step, op.Variant), nontrivial, ""
			}
			if okN > 1 {
				return "sealed-twice", fmt.Sprintf("step %d: %d concurrent identical confirms succeeded", step, okN), nontrivial, ""
			}
			if legit && isAwaiting {
				// the awaiting entry is consumed; sealed unless the ledger refuses the issuer (node / genesis wallet)
				if okN == 1 {
					delete(m.awaiting, tx.Hash)
					m.sealedOrTentative(tx, w.Wallets[1+4].Addr)
					labels["contract-confirmed"]++
				} else {
					labels["valid-request-refused"]++ // the sealing step may fail (e.g. while it drops an invalid tip); a refused request changes nothing
				}
			} else if okN > 0 && !isAwaiting {
				return "confirm-of-non-awaiting-sealed", fmt.Sprintf("step %d: confirming a transaction that is not awaiting succeeded", step), nontrivial, ""
			}
		case "reject":
			if len(txs) == 0 {
				continue
			}
			tx := txs[op.Tx%len(txs)]
			receiver := ref.KeyByAddr(w.Wallets, tx.ReceiverAddress)
			issuer := ref.KeyByAddr(w.Wallets, tx.IssuerAddress)
			_, isAwaiting := m.awaiting[tx.Hash]
			var req *protobufcompiled.SignedHash
			legit := false
			switch op.Variant {
			case "receiver":
				req = signedHash(receiver.Addr, tx.Hash[:], receiver)
				legit = true
			case "issuer":
				req = signedHash(issuer.Addr, tx.Hash[:], issuer)
				legit = issuer.Addr == receiver.Addr
			case "stranger":
				k := wal(op.By)
				req = signedHash(k.Addr, tx.Hash[:], k)
				legit = k.Addr == receiver.Addr
			case "claims-receiver-signs-other":
				k := wal(op.By)
				req = signedHash(receiver.Addr, tx.Hash[:], k)
				legit = k.Addr == receiver.Addr
			case "bitflip":
				req = signedHash(receiver.Addr, tx.Hash[:], receiver)
				req.Signature[9] ^= 4
			}
			copies := max(1, op.Copies)
			okN, pn := c16Parallel(copies, func() (any, error) { return s.notary.Reject(ctx, req) })
			if pn != nil {
				return "panic:Reject", fmt.Sprintf("step %d: Reject panicked: %v", step, pn), nontrivial, ""
			}
			if isAwaiting {
				nontrivial = true
			}
			if !legit && okN > 0 {
				return "invalid-signature-accepted:Reject", fmt.Sprintf("step %d: Reject variant %q (not signed by the receiver) succeeded", step, op.Variant), nontrivial, ""
			}
			if okN > 1 {
				return "sealed-twice", fmt.Sprintf("step %d: %d concurrent identical rejects succeeded", step, okN), nontrivial, ""
			}
			if legit && isAwaiting {
				if okN == 1 {
					delete(m.awaiting, tx.Hash)
					m.sealedOrTentative(tx, w.Wallets[1+4].Addr)
					labels["contract-rejected"]++
				} else {
					labels["valid-request-refused"]++
				}
			} else if okN > 0 && !isAwaiting {
				return "reject-of-non-awaiting-sealed", fmt.Sprintf("step %d: rejecting a transaction that is not awaiting succeeded", step), nontrivial, ""
			}
		case "data":
			k := wal(op.By)
			res, err, pn := call(func() (*protobufcompiled.DataBlob, error) {
				return s.notary.Data(ctx, &protobufcompiled.Address{Public: k.Addr})
			})
			if pn != nil {
				return "panic:Data", fmt.Sprintf("step %d: Data panicked: %v", step, pn), nontrivial, ""
			}
			if err == nil && res != nil {
				m.challenge[k.Addr] = append([]byte(nil), res.Blob...)
			}
		case "waiting", "history":
			about := wal(op.About)
			signer := about
			data := m.challenge[about.Addr]
			authentic := len(data) > 0
			switch op.Variant {
			case "fresh":
			case "superseded":
				old := append([]byte(nil), data...)
				res, err, _ := call(func() (*protobufcompiled.DataBlob, error) {
					return s.notary.Data(ctx, &protobufcompiled.Address{Public: about.Addr})
				})
				if err == nil && res != nil {
					m.challenge[about.Addr] = append([]byte(nil), res.Blob...)
				}
				data = old
				authentic = false
			case "foreign-challenge":
				data = m.challenge[wal(op.By).Addr]
				authentic = authentic && bytes.Equal(data, m.challenge[about.Addr]) && len(data) > 0
			case "other-key":
				signer = wal(op.By)
				authentic = authentic && signer.Addr == about.Addr
			case "no-challenge":
				data = []byte("no challenge at all")
				authentic = false
			case "challenge-prefix":
				// the owner's key over a leading fragment of the live challenge: not the server-issued challenge
				if len(data) > 1 {
					cut := []int{1, 16, 64, len(data) - 1}[int(op.By)%4]
					if cut >= len(data) {
						cut = len(data) - 1
					}
					data = append([]byte(nil), data[:cut]...)
				}
				authentic = false
			case "challenge-extended":
				data = append(append([]byte(nil), data...), 0)
				authentic = false
			}
			nontrivial = nontrivial || !authentic
			req := signedHash(about.Addr, data, signer)
			var res *protobufcompiled.Transactions
			var err error
			var pn any
			if op.K == "waiting" {
				res, err, pn = call(func() (*protobufcompiled.Transactions, error) { return s.notary.Waiting(ctx, req) })
			} else {
				res, err, pn = call(func() (*protobufcompiled.Transactions, error) { return s.notary.TransactionsInDAG(ctx, req) })
			}
			if pn != nil {
				return "panic:" + op.K, fmt.Sprintf("step %d: %s panicked: %v", step, op.K, pn), nontrivial, ""
			}
			if err == nil && res != nil && !authentic {
				return "unauthenticated-read:" + op.K, fmt.Sprintf("step %d: %s returned data for %s to a caller that did not sign that address's current challenge with its key (variant %q)", step, op.K, about.Name, op.Variant), nontrivial, ""
			}
			if err == nil && res != nil && op.K == "waiting" {
				want := 0
				for _, t := range m.awaiting {
					if t.IssuerAddress == about.Addr || t.ReceiverAddress == about.Addr {
						want++
					}
				}
				if len(res.Array) != want {
					return "waiting-list-wrong", fmt.Sprintf("step %d: waiting list of %s has %d entries, model %d", step, about.Name, len(res.Array), want), nontrivial, ""
				}
			}
		case "balance":
			about := wal(op.About)
			signer := about
			data := []byte(about.Addr)
			authentic := true
			switch op.Variant {
			case "other-key":
				signer = wal(op.By)
				authentic = signer.Addr == about.Addr
			case "data-not-address":
				data = []byte(wal(op.By).Addr)
				authentic = wal(op.By).Addr == about.Addr
			case "challenge-as-data":
				data = append([]byte(nil), m.challenge[about.Addr]...)
				authentic = false
			case "forged-after-own-read":
				// the owner reads first (the node caches the answer asynchronously), then somebody without the key asks
				own := signedHash(about.Addr, []byte(about.Addr), about)
				call(func() (*protobufcompiled.Spice, error) { return s.notary.Balance(ctx, own) })
				for k := 0; k < 200; k++ {
					if _, err := s.hip.ReadBalance(about.Addr); err == nil {
						break
					}
					time.Sleep(500 * time.Microsecond)
				}
				noteBalances()
				signer = wal(op.By)
				authentic = signer.Addr == about.Addr
				labels["forged-balance-after-cached-own-read"]++
			}
			nontrivial = nontrivial || !authentic
			req := signedHash(about.Addr, data, signer)
			res, err, pn := call(func() (*protobufcompiled.Spice, error) { return s.notary.Balance(ctx, req) })
			if pn != nil {
				return "panic:Balance", fmt.Sprintf("step %d: Balance panicked: %v", step, pn), nontrivial, ""
			}
			if err == nil && res != nil {
				if !authentic {
					return "unauthenticated-read:balance", fmt.Sprintf("step %d: Balance returned the balance of %s to a caller that did not sign that address with its key (variant %q)", step, about.Name, op.Variant), nontrivial, ""
				}
				noteBalances()
				got := ref.V(spice.Melange{Currency: res.Currency, SupplementaryCurrency: res.SupplementaryCurrency}).String()
				if !m.balSeen[about.Addr][got] {
					return "balance-never-held", fmt.Sprintf("step %d: Balance reports %s for %s, a value the reference never held for it during the case %v", step, got, about.Name, keys(m.balSeen[about.Addr])), nontrivial, ""
				}
			}
		case "saved":
			if len(txs) == 0 {
				continue
			}
			tx := txs[op.Tx%len(txs)]
			k := wal(op.By)
			_, _, pn := call(func() (*protobufcompiled.Transaction, error) {
				return s.notary.Saved(ctx, signedHash(k.Addr, tx.Hash[:], k))
			})
			if pn != nil {
				return "panic:Saved", fmt.Sprintf("step %d: Saved panicked: %v", step, pn), nontrivial, ""
			}
		case "alive":
			call(func() (*protobufcompiled.AliveData, error) { return s.notary.Alive(ctx, &emptypb.Empty{}) })
		}
		noteBalances()
		if sg, ms := check(step, op); sg != "" {
			return sg, ms, nontrivial, ""
		}
	}
	return "", "", nontrivial, ""
}

// c16Parallel runs n copies of a call concurrently and counts successes.
func c16Parallel(n int, f func() (any, error)) (okN int, panicked any) {
	var wg sync.WaitGroup
	var mu sync.Mutex
	for i := 0; i < n; i++ {
		wg.Add(1)
		go func() {
			defer wg.Done()
			_, err, pn := call(f)
			mu.Lock()
			if pn != nil {
				panicked = pn
			} else if err == nil {
				okN++
			}
			mu.Unlock()
		}()
	}
	wg.Wait()
	return
}

func TestC16(t *testing.T) {
	st := newStats(t, "C16", "cases = call sequences against the real notary service object over a real ledger, awaiting cache and challenge store with 7 client wallets (4 funded users, 1 unfunded, the node's own wallet, the genesis receiver): propose {spice, contract, contract+spice, empty} x {valid, wrong-key, bit-flipped signature}, confirm {receiver, stranger, issuer-only, signature of another transaction, bit-flipped}, reject {receiver, issuer, stranger, claims-receiver-signed-by-other, bit-flipped}, data, waiting/history {fresh, superseded, foreign challenge, other key, no challenge}, balance {own, other key, data != address, challenge as data}, saved, repeats and concurrent copies; oracle = reference state machine (awaiting, sealed, challenge) compared with ledger and cache after every step + authentication implications on every read; non-trivial = a contract reaches confirm/reject or an unauthenticated read is attempted; distinct by call-sequence fingerprint")
	sim.Chdir(workDir(t))
	if thorough() || shard() == 0 {
		c16Expiry(st)
		if len(st.Violations) > 0 {
			t.Errorf("C16: expired challenge accepted")
		}
	}
	caseNo := 0
	rapid.Check(t, func(rt *rapid.T) {
		if outOfBudget(st) {
			return
		}
		worldsMade++
		caseNo++
		c := c16Case{RealFlash: rapid.IntRange(0, 3).Draw(rt, "realFlash") == 0}
		n := rapid.IntRange(3, 45).Draw(rt, "n")
		for i := 0; i < n; i++ {
			op := c16Op{K: rapid.SampledFrom([]string{"propose", "propose", "propose", "confirm", "confirm", "reject", "reject", "data", "waiting", "history", "balance", "saved", "alive"}).Draw(rt, "k")}
			op.From = rapid.IntRange(0, c16Clients+1).Draw(rt, "from")
			op.To = rapid.IntRange(0, c16Clients+1).Draw(rt, "to")
			op.By = rapid.IntRange(0, c16Clients+1).Draw(rt, "by")
			op.About = rapid.IntRange(0, c16Clients+1).Draw(rt, "about")
			op.Tx = rapid.IntRange(0, 60).Draw(rt, "tx")
			if rapid.IntRange(0, 5).Draw(rt, "conc") == 0 {
				op.Copies = rapid.IntRange(2, 6).Draw(rt, "copies")
			}
			switch op.K {
			case "propose":
				op.Kind = rapid.SampledFrom([]string{"spice", "contract", "contract", "contract", "contract", "contract+spice", "empty", "spice-to-cache-key"}).Draw(rt, "kind")
				op.Sig = rapid.SampledFrom([]string{"valid", "valid", "valid", "valid", "wrongkey", "bitflip"}).Draw(rt, "sig")
			case "confirm":
				op.Variant = rapid.SampledFrom([]string{"receiver", "receiver", "receiver", "stranger", "issuer-only", "sig-of-other-tx", "bitflip"}).Draw(rt, "variant")
			case "reject":
				op.Variant = rapid.SampledFrom([]string{"receiver", "receiver", "issuer", "stranger", "claims-receiver-signs-other", "bitflip"}).Draw(rt, "variant")
			case "waiting", "history":
				op.Variant = rapid.SampledFrom([]string{"fresh", "fresh", "superseded", "foreign-challenge", "other-key", "no-challenge", "challenge-prefix", "challenge-extended"}).Draw(rt, "variant")
			case "balance":
				op.Variant = rapid.SampledFrom([]string{"own", "own", "other-key", "data-not-address", "challenge-as-data", "forged-after-own-read", "forged-after-own-read"}).Draw(rt, "variant")
			}
			c.Ops = append(c.Ops, op)
		}
		sig, msg, nt, inc := c16Run(c, fmt.Sprintf("c16-%d-%d", shard(), caseNo))
		if inc != "" {
			st.note("inconclusive: %s", inc)
			st.label("inconclusive-case")
			return
		}
		st.eval(1)
		for _, op := range c.Ops {
			st.label("op:" + op.K)
		}
		for k, v := range c16Labels {
			st.labelN("outcome:"+k, int64(v))
			delete(c16Labels, k)
		}
		if nt {
			st.nontrivial(fp64(fmt.Sprintf("%+v", c)))
			st.sample(map[string]any{"ops": len(c.Ops), "first": c.Ops[:min(6, len(c.Ops))]})
		}
		if sig != "" && st.report(sig, msg, c) {
			rt.Fatalf("C16 violated (%s): %s", sig, msg)
		}
	})
}

// c16Expiry (real waits): a challenge older than its longevity no longer authenticates - also when it was presented,
// with a valid or with a junk signature, while it was still alive (its lifetime runs from issuance, not from last use).
func c16Expiry(st *stats) {
	for _, keepAlive := range []string{"none", "valid-read", "junk-signature"} {
		s, err := newSvc("c16-expiry-"+keepAlive, 3, 2, false, 1)
		if err != nil {
			return
		}
		k := s.w.Wallets[1]
		tx := ref.MakeTx("c16 expiry", spice.Melange{}, []byte{1, 2, 3}, k.Addr, s.w.Wallets[2], s.w.Epoch.Add(time.Hour))
		s.notary.Propose(bg, protoTx(&tx))
		blob, err := s.notary.Data(bg, &protobufcompiled.Address{Public: k.Addr})
		issued := time.Now() // the challenge was stored before Data returned: it expires no later than issued + 1 s
		if err != nil {
			s.close()
			return
		}
		res, err := s.notary.Waiting(bg, signedHash(k.Addr, blob.Blob, k))
		fresh := err == nil && res != nil
		kept := false
		if keepAlive != "none" {
			time.Sleep(600*time.Millisecond - time.Since(issued))
			req := signedHash(k.Addr, blob.Blob, k)
			if keepAlive == "junk-signature" {
				req.Signature[7] ^= 0x20
			}
			r, e := s.notary.Waiting(bg, req)
			kept = time.Since(issued) < 900*time.Millisecond
			if keepAlive == "valid-read" && (e != nil || r == nil) {
				kept = false
			}
		}
		if d := 1250*time.Millisecond - time.Since(issued); d > 0 {
			time.Sleep(d)
		}
		res2, err2 := s.notary.Waiting(bg, signedHash(k.Addr, blob.Blob, k))
		st.eval(1)
		st.nontrivial(fp64("expiry", keepAlive))
		st.label("clause:challenge-expiry/" + keepAlive)
		if keepAlive != "none" && kept {
			st.label("clause:challenge-expiry:presented-again-inside-its-lifetime")
		}
		if !fresh {
			st.note("expiry scenario: the fresh challenge was not accepted (%v)", err)
		}
		if err2 == nil && res2 != nil {
			st.reportOnce("expired-challenge-accepted", fmt.Sprintf("Waiting returned data for a challenge %v after it was issued with a 1 s longevity (presented in between: %s)", time.Since(issued).Round(time.Millisecond), keepAlive), map[string]string{"scenario": "expiry", "keep_alive": keepAlive})
		}
		s.close()
	}
}

func TestReplayC16(t *testing.T) {
	var c c16Case
	loadReplay(t, &c)
	sim.Chdir(t.TempDir())
	sig, msg, _, inc := c16Run(c, "c16-replay")
	if sig != "" {
		t.Fatalf("VIOLATION reproduced sig=%s: %s", sig, msg)
	}
	if inc != "" {
		t.Logf("inconclusive: %s", inc)
	}
}

var _ = strings.Contains
