package checks

import (
	"sync/atomic"
	"context"
	"fmt"
	"runtime"
	"sort"
	"strings"
	"sync"
	"time"

	"github.com/bartossh/Computantis/src/accountant"
	"github.com/bartossh/Computantis/src/cache"
	"github.com/bartossh/Computantis/src/gossip"
	"github.com/bartossh/Computantis/src/pipe"
	"github.com/bartossh/Computantis/src/protobufcompiled"
	"github.com/bartossh/Computantis/src/spice"
	"github.com/bartossh/Computantis/src/transaction"
	"github.com/bartossh/Computantis/src/wallet"
	"google.golang.org/grpc"
	"google.golang.org/protobuf/proto"
	"google.golang.org/protobuf/types/known/emptypb"

	"verif/harness/ref"
	"verif/harness/sim"
)

// Virtual gossip network (DESIGN §3.3): real gossiper objects on real ledgers and caches; peer tables hold stubs that
// put every forwarded message in to an in-flight list; the harness is the scheduler.

type vmsg struct {
	From, To int
	Vrx      *protobufcompiled.VrxMsgGossip
	Trx      *protobufcompiled.TrxMsgGossip
	Seq      int
}

func (m *vmsg) hash() ref.Hash {
	var h ref.Hash
	if m.Vrx != nil && m.Vrx.Vertex != nil {
		copy(h[:], m.Vrx.Vertex.Hash)
	} else if m.Trx != nil && m.Trx.Trx != nil {
		copy(h[:], m.Trx.Trx.Hash)
	}
	return h
}

func (m *vmsg) gossipers() []*protobufcompiled.Gossiper {
	if m.Vrx != nil {
		return m.Vrx.Gossipers
	}
	return m.Trx.Gossipers
}

type vevent struct {
	Kind string // send | admit | reject | deliver
	Node int
	To   int
	Hash ref.Hash
	Seq  int
}

// countingBook wraps the ledger to observe admissions.
type countingBook struct {
	*accountant.AccountingBook
	net  *vnet
	node int
}

func (c *countingBook) AddLeaf(ctx context.Context, leaf *accountant.Vertex) error {
	err := c.AccountingBook.AddLeaf(ctx, leaf)
	c.net.mu.Lock()
	k := "reject"
	if err == nil {
		k = "admit"
	}
	c.net.seq++
	c.net.events = append(c.net.events, vevent{Kind: k, Node: c.node, Hash: leaf.Hash, Seq: c.net.seq})
	c.net.mu.Unlock()
	return err
}

type vstub struct {
	protobufcompiled.GossipAPIClient
	net      *vnet
	from, to int
}

func (s *vstub) GossipVrx(_ context.Context, in *protobufcompiled.VrxMsgGossip, _ ...grpc.CallOption) (*emptypb.Empty, error) {
	s.net.post(&vmsg{From: s.from, To: s.to, Vrx: proto.Clone(in).(*protobufcompiled.VrxMsgGossip)})
	return &emptypb.Empty{}, nil
}
func (s *vstub) GossipTrx(_ context.Context, in *protobufcompiled.TrxMsgGossip, _ ...grpc.CallOption) (*emptypb.Empty, error) {
	s.net.post(&vmsg{From: s.from, To: s.to, Trx: proto.Clone(in).(*protobufcompiled.TrxMsgGossip)})
	return &emptypb.Empty{}, nil
}
func (s *vstub) GetVertex(context.Context, *protobufcompiled.SignedHash, ...grpc.CallOption) (*protobufcompiled.Vertex, error) {
	return nil, fmt.Errorf("virtual network: no such vertex")
}

type vnode struct {
	idx   int
	key   *ref.Key
	book  *accountant.AccountingBook
	g     *gossip.VerifGossiper
	hip   *cache.Hippocampus
	flash *forgetfulFlash
	pipe  *pipe.Juggler
	evil  bool // adversarial relay: no real gossiper, the harness plays it
}

type vnet struct {
	w        *sim.World
	nodes    []*vnode
	mu       sync.Mutex
	inflight []*vmsg
	sent     []*vmsg
	events   []vevent
	seq      int
	cancel   context.CancelFunc
	adj      [][]bool
	trxCtr   int
}

func (n *vnet) post(m *vmsg) {
	n.mu.Lock()
	n.seq++
	m.Seq = n.seq
	n.inflight = append(n.inflight, m)
	n.sent = append(n.sent, m)
	n.events = append(n.events, vevent{Kind: "send", Node: m.From, To: m.To, Hash: m.hash(), Seq: n.seq})
	n.mu.Unlock()
}

// forgetfulFlash is the node's real recent-hash memory with a switch that stands for "the suppression window has
// elapsed" (really 10-30 s of wall clock): while it is on, every hash looks new to the gossip layer.
type forgetfulFlash struct {
	*cache.Flashback
	forget atomic.Bool
}

func (f *forgetfulFlash) HasHash(h []byte) (bool, error) {
	ok, err := f.Flashback.HasHash(h)
	if f.forget.Load() {
		return false, err
	}
	return ok, err
}

func newVnet(size int, seed string) (*vnet, error) {
	w, err := sim.NewWorld(sim.Config{Nodes: size, Users: 3, GenesisC: 1_000_000, Seed: seed})
	if err != nil {
		return nil, err
	}
	ctx, cancel := context.WithCancel(context.Background())
	n := &vnet{w: w, cancel: cancel}
	for i := 0; i < size; i++ {
		vn := &vnode{idx: i, key: w.Nodes[i].Key, book: w.Nodes[i].Book}
		vn.hip, err = cache.New(8192, 16)
		if err != nil {
			return n, err
		}
		fl, err := cache.NewFlash()
		if err != nil {
			return n, err
		}
		vn.flash = &forgetfulFlash{Flashback: fl}
		vn.pipe = pipe.New(64, 64)
		vn.g = gossip.VerifNewGossiper(fmt.Sprintf("node%d", i), sim.NewLogger(), time.Second, vn.key, wallet.NewVerifier(),
			&countingBook{AccountingBook: vn.book, net: n, node: i}, vn.hip, vn.flash, vn.pipe, nil)
		vn.g.StartLoops(ctx)
		n.nodes = append(n.nodes, vn)
	}
	return n, nil
}

func (n *vnet) close() {
	n.cancel()
	for _, vn := range n.nodes {
		if vn.hip != nil {
			vn.hip.Close()
		}
		if vn.flash != nil {
			vn.flash.Close()
		}
	}
	n.w.Close()
}

// setTopology installs peer tables for the undirected graph adj (nodes marked evil keep their entry in the honest
// nodes' tables but run no gossiper).
func (n *vnet) setTopology(adj [][]bool, evil map[int]bool) {
	n.adj = adj
	for i, vn := range n.nodes {
		vn.evil = evil[i]
		for a := range vn.g.Peers() {
			vn.g.RemovePeer(a)
		}
		for j := range n.nodes {
			if i != j && adj[i][j] {
				vn.g.SetPeer(n.nodes[j].key.Addr, fmt.Sprintf("node%d", j), &vstub{net: n, from: i, to: j}, nil)
			}
		}
	}
}

// settle waits (structurally, by goroutine profile) until every forward goroutine has posted its message and the
// origin loops are idle again.
func (n *vnet) settle() bool {
	for i := 0; i < 20000; i++ {
		busy := false
		for _, g := range sim.Goroutines() {
			s := g.Stack
			// a goroutine that has not run yet shows only its wrapper frame and the "created by" line, so match the
			// creating function's name anywhere in the stack text
			if strings.Contains(s, "gossip.(*gossiper).gossipVertex") || strings.Contains(s, "gossip.(*gossiper).gossipTransaction") ||
				strings.Contains(s, "pipe.(*Juggler).SendVrx") || strings.Contains(s, "pipe.(*Juggler).SendTrx") ||
				strings.Contains(s, "gossip.(*gossiper).processLackingParent") || strings.Contains(s, "gossip.(*gossiper).sendToAccountant") {
				busy = true
				break
			}
			if (strings.Contains(s, "runVertexGossipProcess") || strings.Contains(s, "runTransactionGossipProcess")) && g.State != "select" {
				busy = true
				break
			}
		}
		if !busy {
			return true
		}
		time.Sleep(200 * time.Microsecond)
	}
	return false
}

// settleFast waits until the transient goroutines spawned by a synchronous handler call (forwards, cache
// invalidation) are gone: the goroutine count is back at the value before the call. Falls back to the profile.
func (n *vnet) settleFast(baseline int) bool {
	for i := 0; i < 400; i++ {
		if runtime.NumGoroutine() <= baseline {
			return true
		}
		if i < 50 {
			runtime.Gosched()
		} else {
			time.Sleep(50 * time.Microsecond)
		}
	}
	return n.settle()
}

// sortedInflight returns the in-flight set in canonical order.
func (n *vnet) sortedInflight() []*vmsg {
	n.mu.Lock()
	defer n.mu.Unlock()
	out := append([]*vmsg(nil), n.inflight...)
	sort.SliceStable(out, func(i, j int) bool {
		if out[i].From != out[j].From {
			return out[i].From < out[j].From
		}
		if out[i].To != out[j].To {
			return out[i].To < out[j].To
		}
		return out[i].Seq < out[j].Seq
	})
	return out
}

func (n *vnet) take(m *vmsg) {
	n.mu.Lock()
	for i, x := range n.inflight {
		if x == m {
			n.inflight = append(n.inflight[:i], n.inflight[i+1:]...)
			break
		}
	}
	n.mu.Unlock()
}

// deliver hands a message to the destination's real handler.
func (n *vnet) deliver(m *vmsg) error {
	dst := n.nodes[m.To]
	n.mu.Lock()
	n.seq++
	n.events = append(n.events, vevent{Kind: "deliver", Node: m.To, To: m.From, Hash: m.hash(), Seq: n.seq})
	n.mu.Unlock()
	var err error
	g := sim.GuardT(30*time.Second, func() error {
		if m.Vrx != nil {
			_, err = dst.g.Server().GossipVrx(bg, proto.Clone(m.Vrx).(*protobufcompiled.VrxMsgGossip))
		} else {
			_, err = dst.g.Server().GossipTrx(bg, proto.Clone(m.Trx).(*protobufcompiled.TrxMsgGossip))
		}
		return nil
	})
	if g != nil {
		return g
	}
	return err
}

func (n *vnet) resetLog() {
	n.mu.Lock()
	n.inflight, n.events, n.sent = nil, nil, nil
	n.mu.Unlock()
}

// verifiedSet recomputes, with the harness's own verifier, which gossiper entries of a message are valid for its item.
func verifiedSet(m *vmsg) map[string]bool {
	out := map[string]bool{}
	h := m.hash()
	for _, g := range m.gossipers() {
		if g == nil || len(g.Digest) != 32 {
			continue
		}
		var d ref.Hash
		copy(d[:], g.Digest)
		if ref.VerifySig(append([]byte(g.Address), h[:]...), g.Signature, d, g.Address) {
			out[g.Address] = true
		}
	}
	return out
}

// originVertex creates a fresh item at the origin (its parents are admitted everywhere) and hands it to the
// origin's real vertex gossip loop.
func (n *vnet) originVertex(origin int) (*accountant.Vertex, error) {
	r := n.w.ProposeTx(origin, n.w.MakeTx(0, 1, spice.New(0, 5), 0))
	if r.Err != nil {
		return nil, r.Err
	}
	v := sim.CloneVertex(r.Vertex)
	n.nodes[origin].pipe.SendVrx(&v)
	return r.Vertex, nil
}

// originTrx hands an awaiting (data carrying) transaction to the origin's real transaction gossip loop, after saving
// it in the origin's cache as the notary does.
func (n *vnet) originTrx(origin int) (ref.Hash, *ref.Key, *ref.Key, error) {
	// fresh issuer and receiver per item: the per-address lists of the awaiting cache stay far below the cache's
	// per-shard size limit however many items a long-lived network carries
	n.trxCtr++
	is, rc := ref.NewKey("c11-issuer", []byte(fmt.Sprint(n.trxCtr))), ref.NewKey("c11-receiver", []byte(fmt.Sprint(n.trxCtr)))
	tx := ref.MakeTx(fmt.Sprintf("c11 %d", n.trxCtr), spice.Melange{}, sim.DataBytes(12, int64(n.trxCtr)), rc.Addr, is, n.w.Epoch.Add(time.Duration(n.trxCtr)*time.Second))
	if err := n.nodes[origin].hip.SaveAwaitedTransaction(&tx); err != nil {
		return tx.Hash, nil, nil, err
	}
	n.nodes[origin].pipe.SendTrx(protoTx(&tx))
	return tx.Hash, is, rc, nil
}

// originTrxFull is originTrx returning the transaction and the receiver key (for a later confirmation).
func (n *vnet) originTrxFull(origin int) (transaction.Transaction, *ref.Key, error) {
	n.trxCtr++
	is, rc := ref.NewKey("c11-issuer", []byte(fmt.Sprint(n.trxCtr))), ref.NewKey("c11-receiver", []byte(fmt.Sprint(n.trxCtr)))
	tx := ref.MakeTx(fmt.Sprintf("c11 %d", n.trxCtr), spice.Melange{}, sim.DataBytes(12, int64(n.trxCtr)), rc.Addr, is, n.w.Epoch.Add(time.Duration(n.trxCtr)*time.Second))
	if err := n.nodes[origin].hip.SaveAwaitedTransaction(&tx); err != nil {
		return tx, rc, err
	}
	n.nodes[origin].pipe.SendTrx(protoTx(&tx))
	return tx, rc, nil
}

// connectedGraphs enumerates all connected labelled undirected graphs on k nodes.
func connectedGraphs(k int) [][][]bool {
	var pairs [][2]int
	for i := 0; i < k; i++ {
		for j := i + 1; j < k; j++ {
			pairs = append(pairs, [2]int{i, j})
		}
	}
	var out [][][]bool
	for mask := 0; mask < 1<<len(pairs); mask++ {
		adj := make([][]bool, k)
		for i := range adj {
			adj[i] = make([]bool, k)
		}
		for b, p := range pairs {
			if mask&(1<<b) != 0 {
				adj[p[0]][p[1]], adj[p[1]][p[0]] = true, true
			}
		}
		if isConnected(adj, nil) {
			out = append(out, adj)
		}
	}
	return out
}

func isConnected(adj [][]bool, skip map[int]bool) bool {
	k := len(adj)
	start := -1
	for i := 0; i < k; i++ {
		if !skip[i] {
			start = i
			break
		}
	}
	if start < 0 {
		return true
	}
	seen := map[int]bool{start: true}
	stack := []int{start}
	for len(stack) > 0 {
		x := stack[len(stack)-1]
		stack = stack[:len(stack)-1]
		for y := 0; y < k; y++ {
			if adj[x][y] && !seen[y] && !skip[y] {
				seen[y] = true
				stack = append(stack, y)
			}
		}
	}
	for i := 0; i < k; i++ {
		if !skip[i] && !seen[i] {
			return false
		}
	}
	return true
}

func graphString(adj [][]bool) string {
	var e []string
	for i := range adj {
		for j := i + 1; j < len(adj); j++ {
			if adj[i][j] {
				e = append(e, fmt.Sprintf("%d-%d", i, j))
			}
		}
	}
	return strings.Join(e, ",")
}

func degreeSum(adj [][]bool) int {
	s := 0
	for i := range adj {
		for j := range adj {
			if adj[i][j] {
				s++
			}
		}
	}
	return s
}

func protoVertex(v *accountant.Vertex) *protobufcompiled.Vertex { return gossip.VerifVertexToProto(v) }
