package checks

import (
	"encoding/json"
	"fmt"
	"os"
	"strings"
	"testing"

	"github.com/bartossh/Computantis/src/accountant"
	"github.com/bartossh/Computantis/src/spice"
	"github.com/bartossh/Computantis/src/wallet"
	"pgregory.net/rapid"

	"verif/harness/ref"
	"verif/harness/sim"
)

// Property wrappers around the ledger machine (C01, C02, C03, C06, C09, C10).

type lmRule struct {
	rule       string
	nontrivial func(m *lm) bool
	tweak      func(rt *rapid.T, c *lmConfig)
}

var lmRules = map[string]lmRule{
	"C01": {
		rule: "cases = rapid-generated ledger histories (1-3 nodes; proposals, rogue-sealed vertices on arbitrary parents incl. overdrawing ones, arbitrary delivery order, orphan retries, trusted-node toggles, concurrent proposal batches, balance-relative and carry/borrow boundary amounts, optional truncation); oracle = big-integer funds test on every newly confirmed vertex over declared ancestors + checkpoint; non-trivial = an overdrawing vertex was offered and a later operation validated it (dropped it or built on it); distinct by operation-log fingerprint",
		nontrivial: func(m *lm) bool {
			return len(m.overdraw) > 0 && (m.labels["c01:tip-dropped"] > 0 || m.labels["c01:overdraw-candidate-confirmed-check"] > 0)
		},
	},
	"C02": {
		rule: "cases = histories on 2-4 nodes without trusted or rogue sealers, proposals at arbitrary nodes with arbitrary delayed delivery (unrestricted mode) or serialized-spender mode; oracle = at every quiescent point (pool and orphan buffer empty) over the union of confirmed vertices every wallet but the genesis issuer has received >= spent (math/big over the harness archive); non-trivial = at some moment a node held two tips that do not see each other; distinct by operation-log fingerprint",
		nontrivial: func(m *lm) bool {
			return m.cfg.Nodes >= 2 && m.labels["state:multi-tip"] > 0 && m.labels["c02:quiescent-eval"] > 0
		},
	},
	"C03": {
		rule:       "cases = ledger histories plus replay operators (re-deliver an admitted/parked/dropped/checkpointed vertex, re-propose a sealed or dropped transaction, same transaction wrapped by a second sealer, concurrent triple delivery); oracle = after every operation no transaction hash in two vertices of live+checkpoint, no vertex hash twice, index == {tx(v)->hash(v)} exactly, re-proposal after a drop not refused as existing; non-trivial = at least one duplicate was offered; distinct by operation-log fingerprint",
		nontrivial: func(m *lm) bool { return m.dupOffer > 0 },
	},
	"C06": {
		rule: "cases = ledger histories (any shape the simulator produces, supplementary-unit amounts, near-maximal supply, optional truncation) with balance queries for user wallets, node wallets, the genesis issuer and an absent address, each repeated 3 times; oracle = answer equals checkpoint + received - sent over some current tip and its live ancestors (math/big), error only if that is negative on some tip, snapshot digest unchanged by the query; non-trivial = ledger has >=2 tips or is truncated or boundary amounts are in use or the address is absent/genesis; distinct by operation-log fingerprint",
		nontrivial: func(m *lm) bool {
			q := m.labels["c06:multi-tip"] + m.labels["c06:truncated"] + m.labels["c06:addr-absent"] + m.labels["c06:addr-genesis-issuer"]
			return q > 0 || (m.cfg.BoundaryAmt && m.labels["result:CreateLeaf:ok"] > 0)
		},
	},
	"C09": {
		rule: "cases = ledger histories aimed at roll-back paths (rogue vertices with equal parents, invalid second parent, duplicates, concurrent batches, optional truncation); oracle = from the snapshot only: Kahn's algorithm terminates, inbound edges == declared parents that are live, other declared parents are checkpointed, graph id == hash == independently recomputed digest, sealing and transaction signatures verify with the harness's own verifier; non-trivial = history contains a rejected add, a dropped tip, equal parents or a truncation; distinct by operation-log fingerprint",
		nontrivial: func(m *lm) bool {
			rej := 0
			for k, v := range m.labels {
				if strings.HasPrefix(k, "result:") && !strings.HasSuffix(k, ":ok") {
					rej += v
				}
			}
			return rej > 0 || m.labels["c01:tip-dropped"] > 0 || m.labels["offer:equal-parents"] > 0 || m.labels["op:truncate"] > 0
		},
	},
	"C10": {
		rule: "cases = ledger histories with rule-breaking offers {issuer = sealing node's wallet, issuer = genesis wallet, empty transaction} x {CreateLeaf, AddLeaf, orphan replay (child first, parent later, retry)} at random positions; oracle = scan of every live and checkpointed vertex on every node after every operation; non-trivial = at least one rule-breaking item was offered; distinct by operation-log fingerprint",
		nontrivial: func(m *lm) bool {
			for k := range m.labels {
				if strings.HasPrefix(k, "rulebreak:") {
					return true
				}
			}
			return false
		},
	},
}

var worldsMade int

// maxWorlds bounds the number of worlds per process (each retains ~15 MB per node until a 5-minute ticker fires).
func maxWorlds() int { return envInt("VERIF_MAX_WORLDS", 150) }

func runLedgerProperty(t *testing.T, prop string) {
	r := lmRules[prop]
	st := newStats(t, prop, r.rule)
	sim.Chdir(workDir(t))
	runLedgerCases(t, st, prop, r)
}

func runLedgerCases(t *testing.T, st *stats, prop string, r lmRule) {
	if prop == "C10" {
		st.eval(1)
		st.label("clause:genesis-receiver-is-issuer")
		if c10GenesisClauseFailed {
			st.reportOnce("genesis-names-own-issuer", "CreateGenesis with the node's own address as receiver was accepted", map[string]string{"clause": "genesis receiver == issuer"})
		}
	}
	truncEvery := envInt("VERIF_TRUNC_EVERY", 0) // every n-th case includes a truncation (0 = never)
	caseNo := 0
	rapid.Check(t, func(rt *rapid.T) {
		if outOfBudget(st) {
			return
		}
		worldsMade++
		caseNo++
		cfg := lmDrawConfig(rt, prop)
		if truncEvery > 0 && caseNo%truncEvery == 0 {
			cfg.Truncate = true
			cfg.Nodes = min(cfg.Nodes, 2)
		}
		seed := fmt.Sprintf("%s-%d-%d", prop, shard(), caseNo)
		var m *lm
		var log []string
		var err error
		if cfg.Truncate && (prop == "C01" || prop == "C02" || prop == "C03" || prop == "C09") {
			// truncation cases run the two-node truncation scenario (region, filler, optional late vertex on an old
			// parent, truncate, re-submissions, follow-ups) with this property's oracles
			plan := c07Plan{Region: rapid.IntRange(5, 40).Draw(rt, "region"), Extra: rapid.IntRange(0, 40).Draw(rt, "extra"),
				StaleTip: rapid.Bool().Draw(rt, "stale"), FollowUps: rapid.IntRange(3, 12).Draw(rt, "followUps"), Rogue: true,
				Second: rapid.IntRange(0, 2).Draw(rt, "second") == 0}
			if prop == "C01" {
				// C01 is about overdrafts: most of its truncation cases carry the late overdrawing vertex
				plan.StaleTip, plan.StaleOverdraw = rapid.IntRange(0, 3).Draw(rt, "stale3of4") > 0, true
			}
			if prop == "C02" {
				// C02's premise: no rogue or trusted sealers; conservation is judged after every observation
				plan.Rogue, plan.StaleTip, plan.Second = false, false, rapid.Bool().Draw(rt, "second2")
				c07EvalC02 = true
			}
			cfg.Nodes, cfg.Users, cfg.Rogue = 2, 4, plan.Rogue
			m, log, err = c07Run(rt, plan, seed)
			c07EvalC02 = false
			if m != nil {
				m.cfg.Truncate = true
			}
		} else {
			m, log, err = lmRun(rt, prop, cfg, seed)
		}
		if err != nil {
			st.note("world creation failed: %v", err)
			rt.Skip("world creation failed")
		}
		defer func() {
			if m.stuck == nil {
				m.w.Close()
			}
		}()
		st.eval(1)
		for k, v := range m.labels {
			st.labelN(k, int64(v))
		}
		st.labelN("ops", int64(len(m.w.Ops)))
		st.label(fmt.Sprintf("nodes:%d", cfg.Nodes))
		opsJSON, _ := json.Marshal(m.w.Ops)
		if r.nontrivial(m) {
			st.nontrivial(fp64(string(opsJSON)))
			st.label("nontrivial-cases")
			st.sample(map[string]any{"config": cfg, "log": trimLog(log, 14)})
		}
		trace := lmTrace{Config: cfg, Seed: seed, Ops: m.w.Ops, Log: log}
		for _, v := range m.viol {
			if v.Prop != prop {
				st.label("other-property-violation:" + v.Prop + ":" + v.Sig)
				continue
			}
			if st.report(v.Sig, v.Msg, trace) {
				rt.Fatalf("%s violated (%s): %s\nhistory:\n%s", prop, v.Sig, v.Msg, strings.Join(log, "\n"))
			}
		}
		if m.stuck != nil {
			st.note("case got stuck: %v", m.stuck)
		}
	})
}

func trimLog(log []string, n int) []string {
	if len(log) <= n {
		return log
	}
	out := append([]string{}, log[:n]...)
	return append(out, fmt.Sprintf("... (%d more operations)", len(log)-n))
}

func TestC01(t *testing.T) { runLedgerProperty(t, "C01") }
func TestC02(t *testing.T) {
	r := lmRules["C02"]
	st := newStats(t, "C02", r.rule+"; plus, in every third process, one truncation of a ledger with supply 2^64-2 of which almost everything changes hands once (checkpointed funds and reported balances must equal the big-integer net flows)")
	sim.Chdir(workDir(t))
	if shard()%3 == 1 {
		t.Run("big-turnover", func(t *testing.T) { c07BigTurnover(t, st) })
	}
	t.Run("histories", func(t *testing.T) { runLedgerCases(t, st, "C02", r) })
}
func TestC03(t *testing.T) {
	r := lmRules["C03"]
	st := newStats(t, "C03", r.rule+"; plus a sync clause: a peer's honest stream extended by one further vertex (other parents, sealer and time) that seals a transaction the stream already holds, on the tip / mid-DAG / right behind its parent, loaded by a fresh node which, if it goes into service, must hold every transaction in one vertex only")
	sim.Chdir(workDir(t))
	t.Run("sync", func(t *testing.T) {
		if c03Sync(st) {
			t.Errorf("C03: a synced ledger holds one transaction in two vertices")
		}
	})
	t.Run("histories", func(t *testing.T) { runLedgerCases(t, st, "C03", r) })
}
func TestC06(t *testing.T) {
	r := lmRules["C06"]
	st := newStats(t, "C06", r.rule+"; plus, in every second process, balance queries for untouched wallets issued WHILE the real truncate runs (the scenario of c07_race_test.go): the sum over checkpoint + live ancestors is the same before and after the cut, so every answer must equal it")
	sim.Chdir(workDir(t))
	if shard()%2 == 0 {
		t.Run("while-truncating", func(t *testing.T) { c07Race(t, st, shard()/2) })
	}
	t.Run("histories", func(t *testing.T) { runLedgerCases(t, st, "C06", r) })
}
func TestC09(t *testing.T) { runLedgerProperty(t, "C09") }
func TestC10(t *testing.T) {
	// "genesis cannot name its own issuer as receiver": a direct clause, checked before the histories
	t.Run("genesis-receiver", func(t *testing.T) {
		k := ref.NewKey("c10-genesis", []byte("g"))
		b, err := accountant.NewAccountingBook(bg, accountant.Config{}, wallet.NewVerifier(), k, sim.NewLogger())
		if err != nil {
			t.Skip(err)
		}
		defer b.VerifClose()
		if _, err := b.CreateGenesis("GENESIS", spice.New(10, 0), nil, k.Addr); err == nil || b.DagLoaded() {
			t.Errorf("VIOLATION: genesis naming its own issuer as receiver was accepted (err=%v loaded=%v)", err, b.DagLoaded())
			c10GenesisClauseFailed = true
		}
	})
	r := lmRules["C10"]
	st := newStats(t, "C10", r.rule+"; plus a sync clause: a peer's honest stream with ONE rule-breaking vertex (self-sealed by a stranger / by the genesis wallet / by the joining node, genesis wallet as issuer, empty; spice, data or both; on the tip or mid-DAG), enumerated, loaded by a fresh node whose resulting ledger must not hold such a vertex")
	sim.Chdir(workDir(t))
	t.Run("sync", func(t *testing.T) {
		if c10Sync(st) {
			t.Errorf("C10: rule-breaking vertex in a synced ledger")
		}
	})
	t.Run("histories", func(t *testing.T) { runLedgerCases(t, st, "C10", r) })
}

var c10GenesisClauseFailed bool

var _ = os.Getenv
