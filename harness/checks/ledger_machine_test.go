package checks

import (
	"bytes"
	"errors"
	"fmt"
	"math/big"
	"sort"
	"strings"
	"time"

	"github.com/bartossh/Computantis/src/accountant"
	"github.com/bartossh/Computantis/src/spice"
	"pgregory.net/rapid"

	"verif/harness/ref"
	"verif/harness/sim"
)

// The ledger machine: rapid-generated histories over a sim.World with every ledger oracle (C01, C02, C03,
// C06, C09, C10) evaluated after each operation. Each TestCxx drives it with its own emphasis and reports the
// violations of its own property.

type lmConfig struct {
	Nodes       int  `json:"nodes"`
	Users       int  `json:"users"`
	Rogue       bool `json:"rogue"`      // rogue-sealed vertices on arbitrary parents
	Trusted     bool `json:"trusted"`    // trust / untrust operations
	Dups        bool `json:"dups"`       // replay operators (C03)
	RuleBreak   bool `json:"rulebreak"`  // C10 rule-breaking offers
	Concurrent  bool `json:"concurrent"` // batches of parallel proposals
	Truncate    bool `json:"truncate"`   // a truncation (with >=1000 filler vertices) may happen
	Serialized  bool `json:"serialized"` // C02: a wallet spends again only after its last spend is confirmed everywhere
	BigSupply   bool `json:"bigsupply"`  // genesis supply 2^64-2 units
	BoundaryAmt bool `json:"boundary"`   // supplementary-unit and carry/borrow amounts
	Steps       int  `json:"steps"`
}

type lmViolation struct {
	Prop string
	Sig  string
	Msg  string
}

type lm struct {
	rt     *rapid.T
	cfg    lmConfig
	w      *sim.World
	snaps  []*sim.Snap
	conf   []map[ref.Hash]struct{}
	viol   []lmViolation
	labels map[string]int
	// reference knowledge about offered items
	overdraw        map[ref.Hash]bool // vertex the reference classified as overdrawing when created
	ruleBreak       map[ref.Hash]string
	dupOffer        int
	truncated       []bool
	lastSpend       map[int]ref.Hash // serialized mode: wallet -> last spend vertex
	tainted         bool             // a known finding broke conservation for good in this world
	stuck           error
	clipped         map[string]bool // addresses whose checkpointed net was negative at some truncation (C07)
	orphanEver      bool            // some delivery in this history was answered "parent missing" (a vertex was parked)
	genesisIssuerIn bool            // some transfer targets the genesis issuer address
	pendingCreated  []lmCreated
	twinsDiverged   bool
	staleTips       map[ref.Hash]bool
	postCut         map[ref.Hash]bool // vertices the truncated node sealed after the cut
	evalC02         bool              // evaluate the conservation oracle after every observation (truncation scenarios)
}

type lmCreated struct {
	n   int
	v   *accountant.Vertex
	pre *sim.Snap
}

func (m *lm) label(l string) { m.labels[l]++ }

func (m *lm) addViol(prop, sig, f string, a ...any) {
	m.viol = append(m.viol, lmViolation{prop, sig, fmt.Sprintf(f, a...)})
}

func lmDrawConfig(rt *rapid.T, focus string) lmConfig {
	c := lmConfig{}
	c.Nodes = rapid.SampledFrom([]int{1, 1, 2, 2, 3}).Draw(rt, "nodes")
	c.Users = rapid.IntRange(2, 5).Draw(rt, "users")
	c.Rogue = rapid.Bool().Draw(rt, "rogue")
	c.BoundaryAmt = rapid.Bool().Draw(rt, "boundaryAmt")
	c.BigSupply = rapid.IntRange(0, 5).Draw(rt, "bigSupply") == 0
	c.Steps = rapid.IntRange(8, 70).Draw(rt, "steps")
	switch focus {
	case "C01":
		c.Rogue = rapid.IntRange(0, 3).Draw(rt, "rogueOn") > 0
		c.Trusted = rapid.IntRange(0, 3).Draw(rt, "trustedOn") == 0
		c.Concurrent = rapid.IntRange(0, 4).Draw(rt, "concurrentOn") == 0
		c.Dups = rapid.IntRange(0, 4).Draw(rt, "dupsOn") == 0
	case "C02":
		c.Nodes = rapid.SampledFrom([]int{2, 2, 3, 4}).Draw(rt, "nodes2")
		c.Rogue = false // the statement excludes nothing but a rogue sealer can overdraw only via the same merge hole
		c.Serialized = rapid.Bool().Draw(rt, "serialized")
	case "C03":
		c.Dups = true
		c.Concurrent = rapid.IntRange(0, 2).Draw(rt, "concurrentOn") == 0
	case "C06":
		c.BoundaryAmt = true
	case "C09":
		c.Rogue = true
		c.Dups = rapid.Bool().Draw(rt, "dupsOn")
		c.Concurrent = rapid.IntRange(0, 3).Draw(rt, "concurrentOn") == 0
	case "C08":
		c.Rogue = true
		c.Concurrent = rapid.Bool().Draw(rt, "concurrentOn")
		c.Dups = rapid.Bool().Draw(rt, "dupsOn")
	case "C10":
		c.RuleBreak = true
		c.Rogue = true
		c.Nodes = rapid.SampledFrom([]int{1, 2, 2, 3}).Draw(rt, "nodes2")
	}
	return c
}

func lmNew(rt *rapid.T, cfg lmConfig, seed string) (*lm, error) {
	gc := uint64(1000)
	if cfg.BigSupply {
		gc = ^uint64(0) - 1
	}
	w, err := sim.NewWorld(sim.Config{Nodes: cfg.Nodes, Users: cfg.Users, GenesisC: gc, Seed: seed})
	if err != nil {
		return nil, err
	}
	m := &lm{rt: rt, cfg: cfg, w: w, labels: map[string]int{}, overdraw: map[ref.Hash]bool{}, ruleBreak: map[ref.Hash]string{},
		lastSpend: map[int]ref.Hash{}}
	m.snaps = make([]*sim.Snap, cfg.Nodes)
	m.conf = make([]map[ref.Hash]struct{}, cfg.Nodes)
	m.truncated = make([]bool, cfg.Nodes)
	for i := range w.Nodes {
		s, err := w.Snapshot(w.Nodes[i])
		if err != nil {
			return m, err
		}
		m.snaps[i] = s
		m.conf[i] = s.Confirmed()
	}
	return m, nil
}

// ---------- reference helpers ----------

// refBalance: in - out over a vertex set.
func (m *lm) net(set map[ref.Hash]struct{}, addr string) *big.Int {
	in, out := m.w.Arch.Flow(set, addr)
	return in.Sub(in, out)
}

// viewBalance: the balance the wallet has in node n's whole current view (live + stored); generator aid only.
func (m *lm) viewBalance(n, wallet int) *big.Int {
	s := m.snaps[n]
	set := ref.Union(s.LiveSet(), s.StoredSet())
	return m.net(set, m.w.Wallets[wallet].Addr)
}

// covered: C01 funds test for vertex v in history H (v not in H).
func (m *lm) covered(v *accountant.Vertex, H map[ref.Hash]struct{}) (bool, *big.Int, *big.Int) {
	in, out := m.w.Arch.Flow(H, v.Transaction.IssuerAddress)
	need := new(big.Int).Add(out, ref.V(v.Transaction.Spice))
	// a transfer to oneself adds to both sides in the code (leaf counted in both in and out)
	if v.Transaction.ReceiverAddress == v.Transaction.IssuerAddress {
		in = new(big.Int).Add(in, ref.V(v.Transaction.Spice))
	}
	return in.Cmp(need) >= 0, in, need
}

// ---------- amount generator ----------

func (m *lm) drawAmount(n, from int, label string) spice.Melange {
	bal := m.viewBalance(n, from)
	if bal.Sign() < 0 {
		bal = new(big.Int)
	}
	modes := []string{"small", "small", "exact", "half", "plus1unit", "over"}
	if m.cfg.BoundaryAmt {
		modes = append(modes, "exact", "plus1supp", "minus1supp", "suppOnly", "carry", "minus1unit")
	}
	mode := rapid.SampledFrom(modes).Draw(m.rt, label+"Mode")
	one := big.NewInt(1)
	unit := new(big.Int).SetUint64(ref.E18)
	var v *big.Int
	switch mode {
	case "small":
		v = new(big.Int).Mul(big.NewInt(int64(rapid.IntRange(1, 40).Draw(m.rt, label+"Small"))), unit)
	case "exact":
		v = new(big.Int).Set(bal)
	case "half":
		v = new(big.Int).Rsh(bal, 1)
	case "plus1unit":
		v = new(big.Int).Add(bal, unit)
	case "minus1unit":
		v = new(big.Int).Sub(bal, unit)
	case "plus1supp":
		v = new(big.Int).Add(bal, one)
	case "minus1supp":
		v = new(big.Int).Sub(bal, one)
	case "over":
		v = new(big.Int).Add(bal, new(big.Int).Mul(big.NewInt(int64(rapid.IntRange(1, 500).Draw(m.rt, label+"Over"))), unit))
	case "suppOnly":
		v = new(big.Int).SetUint64(rapid.Uint64Range(1, ref.E18-1).Draw(m.rt, label+"Supp"))
	case "carry":
		v = new(big.Int).SetUint64(rapid.SampledFrom([]uint64{ref.E18 / 2, ref.E18 - 1, ref.E18/2 + 1, ref.E18 + ref.E18/2}).Draw(m.rt, label+"Carry"))
	}
	if v.Sign() <= 0 {
		v = new(big.Int).Set(unit)
	}
	mel, ok := ref.FromBig(v)
	if !ok {
		mel = spice.Melange{Currency: ^uint64(0), SupplementaryCurrency: ref.E18 - 1}
	}
	if mode != "small" {
		m.label("amount:" + mode)
	}
	return mel
}

// ---------- observation + oracles ----------

func (m *lm) observe(opDesc string) {
	defer func() { m.pendingCreated = nil }()
	for i, n := range m.w.Nodes {
		prev := m.snaps[i]
		prevConf := m.conf[i]
		s, err := m.w.Snapshot(n)
		if err != nil {
			if errors.Is(err, sim.ErrStuck) {
				m.stuckViol("snapshot", err)
			}
			m.stuck = fmt.Errorf("snapshot node %d: %w", i, err)
			return
		}
		m.snaps[i] = s
		m.conf[i] = s.Confirmed()
		if len(s.Tips()) >= 2 {
			m.label("state:multi-tip")
		}
		if len(s.Parked) > 0 {
			m.label("state:parked-orphans")
			m.orphanEver = true
		}
		for _, pc := range m.pendingCreated {
			if pc.n == i {
				m.oracleC09Created(i, pc.v, pc.pre, s)
			}
		}
		m.oracleC01(i, prev, prevConf, s, opDesc)
		m.oracleC03(i, prev, s, opDesc)
		m.oracleC09(i, s, opDesc)
		m.oracleC10(i, s, opDesc)
		if n.Log.FatalCount() > 0 {
			m.addViol("C07", "log-fatal", "node %d logged Fatal: %v", i, n.Log.Fatals)
		}
	}
	if m.evalC02 && !m.cfg.Trusted && !m.tainted && m.stuck == nil {
		m.oracleC02(opDesc)
	}
}

func short(h ref.Hash) string { return fmt.Sprintf("%x", h[:4]) }

func (m *lm) describe(v *accountant.Vertex) string {
	name := func(addr string) string {
		for _, k := range m.w.Wallets {
			if k.Addr == addr {
				return k.Name
			}
		}
		return addr[:6]
	}
	return fmt.Sprintf("vertex %s [%s -> %s amount %d.%018d data %dB sealed by %s parents %s,%s weight %d]", short(v.Hash),
		name(v.Transaction.IssuerAddress), name(v.Transaction.ReceiverAddress), v.Transaction.Spice.Currency, v.Transaction.Spice.SupplementaryCurrency,
		len(v.Transaction.Data), name(v.SignerPublicAddress), short(v.LeftParentHash), short(v.RightParentHash), v.Weight)
}

func (m *lm) oracleC01(i int, prev *sim.Snap, prevConf map[ref.Hash]struct{}, s *sim.Snap, opDesc string) {
	conf := m.conf[i]
	for h := range conf {
		if _, was := prevConf[h]; was {
			continue
		}
		v := m.w.Arch.V[h]
		if v == nil || !ref.IsSpice(v) || h == m.w.Genesis.Hash {
			continue
		}
		if prev.Trusted[v.SignerPublicAddress] || s.Trusted[v.SignerPublicAddress] {
			m.label("c01:confirmed-under-trust")
			continue
		}
		H := ref.Union(m.w.Arch.Anc(h), prev.StoredSet())
		delete(H, h)
		ok, in, need := m.covered(v, H)
		if m.overdraw[h] {
			m.label("c01:overdraw-candidate-confirmed-check")
		}
		if !ok {
			sig := "overdraw-confirmed"
			// root-cause classification
			_, stored := s.Stored[h]
			allParentsGone := true
			for _, p := range ref.Parents(v) {
				if _, live := prev.Live[p]; live {
					allParentsGone = false
				}
			}
			// is the issuer already overdrawn over the checkpointed set alone? (only possible through a merge of
			// conflicting spends - C02's known finding - or the trusted exemption); truncation then clips the
			// negative net to the gross inflow and hands funds back
			stIn, stOut := m.w.Arch.Flow(s.StoredSet(), v.Transaction.IssuerAddress)
			switch {
			case stIn.Cmp(stOut) < 0:
				sig = "checkpoint-clips-overdrawn-wallet"
			case stored && !m.isStoredBefore(prev, h):
				sig = "overdraw-checkpointed"
			case allParentsGone && m.truncated[i]:
				sig = "root-exemption-after-truncation"
			case m.historyHasTrustedOverdraft(H, prev, s):
				sig = "history-contains-earlier-overdraft"
			}
			m.addViol("C01", sig, "node %d after %s: %s became confirmed although its issuer received %s and needs %s in the history it builds on (ancestors + checkpoint)", i, opDesc, m.describe(v), in, need)
		}
	}
	// dropped tips leave no index entry
	for h, v := range prev.Live {
		if _, still := s.Live[h]; still {
			continue
		}
		if _, st := s.Stored[h]; st {
			continue
		}
		m.label("c01:tip-dropped")
		if tgt, ok := s.Raw.Index[v.Transaction.Hash]; ok && bytes.Equal(tgt, h[:]) {
			m.addViol("C01", "dropped-tip-keeps-index", "node %d after %s: %s was dropped from the ledger but its transaction index entry remains", i, opDesc, m.describe(v))
		}
	}
}

func (m *lm) isStoredBefore(prev *sim.Snap, h ref.Hash) bool { _, ok := prev.Stored[h]; return ok }

func (m *lm) historyHasTrustedOverdraft(H map[ref.Hash]struct{}, prev, s *sim.Snap) bool {
	for h := range H {
		v := m.w.Arch.V[h]
		if v != nil && m.overdraw[h] {
			return true
		}
	}
	return false
}

func (m *lm) oracleC03(i int, prev *sim.Snap, s *sim.Snap, opDesc string) {
	byTx := map[ref.Hash]ref.Hash{}
	for h, v := range s.Live {
		if _, both := s.Stored[h]; both {
			m.addViol("C03", "vertex-live-and-stored", "node %d after %s: vertex %s is both in the live DAG and in checkpoint storage", i, opDesc, short(h))
		}
		if o, dup := byTx[v.Transaction.Hash]; dup && o != h {
			m.addViol("C03", "tx-in-two-vertices", "node %d after %s: transaction %s is sealed in two vertices %s and %s", i, opDesc, short(v.Transaction.Hash), short(o), short(h))
		}
		byTx[v.Transaction.Hash] = h
	}
	for h, v := range s.Stored {
		if _, live := s.Live[h]; live {
			continue
		}
		if o, dup := byTx[v.Transaction.Hash]; dup && o != h {
			m.addViol("C03", "tx-in-two-vertices", "node %d after %s: transaction %s is sealed in two vertices %s and %s (one checkpointed)", i, opDesc, short(v.Transaction.Hash), short(o), short(h))
		}
		byTx[v.Transaction.Hash] = h
		if s.StoredKey[h] != h {
			m.addViol("C03", "stored-under-foreign-key", "node %d: checkpointed vertex %s stored under key %s", i, short(h), short(s.StoredKey[h]))
		}
	}
	if len(s.Raw.Live) != len(s.Live) || len(s.Raw.Stored) != len(s.Stored) {
		m.addViol("C03", "vertex-hash-twice", "node %d after %s: a vertex hash occurs twice (live %d/%d stored %d/%d)", i, opDesc, len(s.Raw.Live), len(s.Live), len(s.Raw.Stored), len(s.Stored))
	}
	for tx, h := range byTx {
		tgt, ok := s.Raw.Index[tx]
		if !ok {
			m.addViol("C03", "index-missing", "node %d after %s: transaction %s of vertex %s has no index entry", i, opDesc, short(tx), short(h))
		} else if !bytes.Equal(tgt, h[:]) {
			m.addViol("C03", "index-wrong-target", "node %d after %s: index entry of transaction %s points at %x, the transaction is in vertex %s", i, opDesc, short(tx), tgt, short(h))
		}
	}
	for tx, tgt := range s.Raw.Index {
		if _, ok := byTx[tx]; !ok {
			m.addViol("C03", "index-dangling", "node %d after %s: index entry %s -> %x refers to no vertex of the ledger", i, opDesc, short(tx), tgt)
		}
	}
}

func (m *lm) oracleC09(i int, s *sim.Snap, opDesc string) {
	// (i) acyclic: Kahn over the node's own edge list
	indeg := map[string]int{}
	children := map[string][]string{}
	for _, id := range s.Raw.LiveIDs {
		indeg[id] += 0
	}
	for c, ps := range s.EdgeInto {
		for p := range ps {
			indeg[c]++
			children[p] = append(children[p], c)
			if _, ok := indeg[p]; !ok {
				m.addViol("C09", "edge-from-unknown", "node %d after %s: edge from %x which is not a vertex", i, opDesc, p)
			}
		}
	}
	var queue []string
	for id, d := range indeg {
		if d == 0 {
			queue = append(queue, id)
		}
	}
	seen := 0
	for len(queue) > 0 {
		id := queue[0]
		queue = queue[1:]
		seen++
		for _, c := range children[id] {
			indeg[c]--
			if indeg[c] == 0 {
				queue = append(queue, c)
			}
		}
	}
	if seen != len(indeg) {
		m.addViol("C09", "cycle", "node %d after %s: ledger graph has a cycle (%d of %d vertices sorted)", i, opDesc, seen, len(indeg))
	}
	for h, v := range s.Live {
		id := s.LiveID[h]
		if id != string(h[:]) {
			m.addViol("C09", "foreign-id", "node %d after %s: vertex %s is stored in the graph under id %x", i, opDesc, short(h), id)
		}
		if h == m.w.Genesis.Hash {
			continue
		}
		// (ii) edges == declared parents ∩ live; others checkpointed
		want := map[string]struct{}{}
		for _, p := range ref.Parents(v) {
			if _, live := s.Live[p]; live {
				want[string(p[:])] = struct{}{}
			} else if _, st := s.Stored[p]; !st {
				m.addViol("C09", "parent-neither-live-nor-stored", "node %d after %s: %s declares parent %s which is neither in the live DAG nor checkpointed", i, opDesc, m.describe(v), short(p))
			}
		}
		got := s.EdgeInto[id]
		if len(got) != len(want) {
			m.addViol("C09", "edges-mismatch", "node %d after %s: %s has %d inbound edges, declared live parents %d", i, opDesc, m.describe(v), len(got), len(want))
		} else {
			for p := range want {
				if _, ok := got[p]; !ok {
					m.addViol("C09", "edges-mismatch", "node %d after %s: %s lacks the edge from its declared parent %x", i, opDesc, m.describe(v), p[:4])
				}
			}
		}
		// (iii) self-authenticating
		if !ref.VertexValid(v) {
			m.addViol("C09", "not-self-authenticating", "node %d after %s: %s does not recompute (hash/sealing signature/transaction signatures)", i, opDesc, m.describe(v))
		}
	}
	for h, v := range s.Stored {
		if h == m.w.Genesis.Hash {
			continue
		}
		if !ref.VertexValid(v) {
			m.addViol("C09", "not-self-authenticating", "node %d after %s: checkpointed %s does not recompute", i, opDesc, m.describe(v))
		}
	}
}

// oracleC09Created: clause (iv) - a vertex created by node n (sequential proposal) references only tips of the
// pre-state that are valid, and carries weight max(parent weights)+1.
func (m *lm) oracleC09Created(n int, v *accountant.Vertex, pre, post *sim.Snap) {
	tips := pre.Tips()
	// a vertex whose every child was dropped by this very call is a tip "at that moment"
	for h := range pre.Live {
		if _, isTip := tips[h]; isTip {
			continue
		}
		allGone := true
		for _, c := range pre.Live {
			for _, pp := range ref.Parents(c) {
				if pp == h {
					if _, still := post.Live[c.Hash]; still {
						allGone = false
					}
				}
			}
		}
		if allGone {
			tips[h] = struct{}{}
		}
	}
	var maxW uint64
	for _, p := range ref.Parents(v) {
		pv, live := pre.Live[p]
		if !live {
			m.addViol("C09", "created-on-unknown-parent", "node %d created %s on parent %s which was not in its live DAG", n, m.describe(v), short(p))
			continue
		}
		if _, isTip := tips[p]; !isTip {
			m.addViol("C09", "created-on-non-tip", "node %d created %s on parent %s which already had a child (not a tip at that moment)", n, m.describe(v), short(p))
		}
		if !ref.VertexValid(pv) {
			m.addViol("C09", "created-on-invalid-tip", "node %d created %s on a tip that does not verify", n, m.describe(v))
		}
		if pv.Weight > maxW {
			maxW = pv.Weight
		}
		if ref.IsSpice(pv) && p != m.w.Genesis.Hash && !pre.Trusted[pv.SignerPublicAddress] {
			H := ref.Union(m.w.Arch.Anc(p), pre.StoredSet())
			delete(H, p)
			if ok, _, _ := m.covered(pv, H); !ok {
				stIn, stOut := m.w.Arch.Flow(pre.StoredSet(), pv.Transaction.IssuerAddress)
				if stIn.Cmp(stOut) >= 0 {
					m.addViol("C09", "created-on-overdrawing-tip", "node %d created %s on tip %s whose transfer is not covered in its own history", n, m.describe(v), m.describe(pv))
				}
			}
		}
	}
	if v.Weight != maxW+1 {
		m.addViol("C09", "created-wrong-weight", "node %d created %s with weight %d; its parents' maximum weight is %d, expected %d", n, m.describe(v), v.Weight, maxW, maxW+1)
	}
	if len(ref.Parents(v)) == 2 {
		m.label("c09:created-on-two-tips")
		a, b := pre.Live[v.LeftParentHash], pre.Live[v.RightParentHash]
		if a != nil && b != nil && a.Weight != b.Weight {
			m.label("c09:created-on-uneven-tips")
		}
	}
}

func (m *lm) oracleC10(i int, s *sim.Snap, opDesc string) {
	gi := m.w.Genesis.Transaction.IssuerAddress
	chk := func(v *accountant.Vertex, where string) {
		if v.Hash == m.w.Genesis.Hash {
			return
		}
		if v.Transaction.IssuerAddress == v.SignerPublicAddress {
			m.addViol("C10", "self-sealed", "node %d after %s: %s %s carries a transaction issued by the wallet that sealed it", i, opDesc, where, m.describe(v))
		}
		if v.Transaction.IssuerAddress == gi {
			m.addViol("C10", "genesis-wallet-spends", "node %d after %s: %s %s is issued by the genesis wallet", i, opDesc, where, m.describe(v))
		}
		if !ref.IsSpice(v) && len(v.Transaction.Data) == 0 {
			m.addViol("C10", "empty-transaction-sealed", "node %d after %s: %s %s has neither data nor spice", i, opDesc, where, m.describe(v))
		}
	}
	for _, v := range s.Live {
		chk(v, "live")
	}
	for _, v := range s.Stored {
		chk(v, "checkpointed")
	}
}

// oracleC02 runs at quiescent points.
func (m *lm) oracleC02(opDesc string) {
	gi := m.w.Genesis.Transaction.IssuerAddress
	for i := range m.w.Nodes {
		s := m.snaps[i]
		if len(s.Parked) > 0 || m.w.PoolSize(i) > 0 {
			continue
		}
		m.label("c02:quiescent-eval")
		U := m.conf[i]
		m.supplyClause(i, opDesc)
		// exclude worlds with trusted sealing inside U (premise of the statement)
		for h := range U {
			if v := m.w.Arch.V[h]; v != nil && s.Trusted[v.SignerPublicAddress] {
				return
			}
		}
		for wi, k := range m.w.Wallets {
			if k.Addr == gi {
				continue
			}
			in, out := m.w.Arch.Flow(U, k.Addr)
			if in.Cmp(out) >= 0 {
				continue
			}
			// classify: merge double spend (known root cause) vs anything else
			var spends []ref.Hash
			for h := range U {
				v := m.w.Arch.V[h]
				if v != nil && ref.IsSpice(v) && v.Transaction.IssuerAddress == k.Addr {
					spends = append(spends, h)
				}
			}
			allCovered := true
			for _, h := range spends {
				H := ref.Union(m.w.Arch.Anc(h), nil)
				for sh := range s.Stored {
					H[sh] = struct{}{}
				}
				delete(H, h)
				if ok, _, _ := m.covered(m.w.Arch.V[h], H); !ok {
					allCovered = false
				}
			}
			concurrent := false
			for a := 0; a < len(spends) && !concurrent; a++ {
				for b := a + 1; b < len(spends); b++ {
					_, ab := m.w.Arch.Anc(spends[a])[spends[b]]
					_, ba := m.w.Arch.Anc(spends[b])[spends[a]]
					if !ab && !ba {
						concurrent = true
						break
					}
				}
			}
			sig := "wallet-overdrawn"
			if allCovered && concurrent {
				sig = "merge-double-spend"
				if m.cfg.Serialized {
					sig = "double-spend-in-serialized-mode" // excluded by construction there: must never happen
				}
				m.tainted = true
			}
			m.addViol("C02", sig, "node %d at quiescence after %s: over all confirmed vertices wallet %s (#%d) received %s but spent %s (%d confirmed spends; each individually covered in its own history: %v; some pair not ancestor-related: %v)", i, opDesc, k.Name, wi, in, out, len(spends), allCovered, concurrent)
		}
	}
}

// supplyClause: on a ledger with a single tip, without trusted sealing and without transfers to the genesis issuer,
// the balances the NODE reports for all wallets but the genesis issuer add up to the genesis supply.
func (m *lm) supplyClause(i int, opDesc string) {
	s := m.snaps[i]
	gi := m.w.Genesis.Transaction.IssuerAddress
	if len(s.Tips()) != 1 || len(s.Trusted) > 0 || len(s.Parked) > 0 {
		return
	}
	for _, v := range s.Live {
		if v.Hash != m.w.Genesis.Hash && (v.Transaction.ReceiverAddress == gi || !spiceCanon(v.Transaction.Spice)) {
			return
		}
	}
	for _, v := range s.Stored {
		if v.Hash != m.w.Genesis.Hash && v.Transaction.ReceiverAddress == gi {
			return
		}
	}
	// only wallets of this world can hold funds (every receiver the generator uses is one of them)
	sum := new(big.Int)
	for _, k := range m.w.Wallets {
		if k.Addr == gi {
			continue
		}
		b, err := m.w.Balance(i, k.Addr)
		if err != nil {
			return // an overdrawn wallet (merge finding) or the gross-flow overflow (C06 finding): nothing to add up
		}
		sum.Add(sum, ref.V(b))
	}
	want := ref.V(m.w.Genesis.Transaction.Spice)
	m.label("c02:supply-sum-evaluated")
	if sum.Cmp(want) != 0 {
		sig := "supply-sum-differs"
		if m.tainted {
			sig = "merge-double-spend"
		}
		m.addViol("C02", sig, "node %d at quiescence after %s (single tip): the balances reported for all wallets add up to %s, the genesis supply is %s", i, opDesc, sum, want)
	}
}

// ---------- operations ----------

func (m *lm) pickNode(label string) int {
	if len(m.w.Nodes) == 1 {
		return 0
	}
	return rapid.IntRange(0, len(m.w.Nodes)-1).Draw(m.rt, label)
}

// spender wallets: genesis receiver + users (+ node wallets for rule-breaking)
func (m *lm) pickSpender(label string) int {
	return rapid.IntRange(0, m.cfg.Users).Draw(m.rt, label)
}

func (m *lm) pickReceiver(label string, not int) int {
	r := rapid.IntRange(0, m.cfg.Users).Draw(m.rt, label)
	if r == not && rapid.IntRange(0, 9).Draw(m.rt, label+"Self") != 0 {
		r = (r + 1) % (m.cfg.Users + 1)
	}
	return r
}

func errClass(err error) string {
	switch {
	case err == nil:
		return "ok"
	case errors.Is(err, sim.ErrStuck):
		return "STUCK"
	case sim.IsPanic(err):
		return "PANIC"
	case errors.Is(err, accountant.ErrParentDoesNotExists):
		return "parent-missing"
	case errors.Is(err, accountant.ErrTrxInVertexAlreadyExists):
		return "tx-exists"
	case errors.Is(err, accountant.ErrLeafAlreadyExists):
		return "vertex-exists"
	default:
		return "rejected"
	}
}

// stuckViol handles a call that outlived the watchdog. The watchdog alone is a wall-clock signal (machine load, GC
// pressure), so the case is abandoned either way, but C08 is reported only when the goroutine profile confirms that
// the code under test is parked for good (sim.ConfirmStuck); otherwise the case counts as inconclusive.
func (m *lm) stuckViol(what string, err error) {
	m.stuck = err
	if ok, stacks := sim.ConfirmStuck(5, 400*time.Millisecond); ok {
		m.addViol("C08", "stuck:"+what, "%s did not return and every goroutine inside the node is parked, unchanged over 5 profiles:\n%s", what, stacks)
		return
	}
	m.label("watchdog-expired-but-node-progressing(inconclusive)")
}

func (m *lm) noteResult(prop string, r sim.Result, what string) {
	m.label("result:" + what + ":" + errClass(r.Err))
	if errClass(r.Err) == "parent-missing" {
		m.orphanEver = true // from now on a node's own retry ticker may admit, re-park or drop a vertex at any moment
	}
	if r.Err == nil {
		return
	}
	if errors.Is(r.Err, sim.ErrStuck) {
		m.stuckViol(what, r.Err)
	} else if sim.IsPanic(r.Err) {
		m.addViol("C08", "panic:"+what, "%s panicked instead of returning: %v", what, r.Err)
	}
}

func (m *lm) opPropose() string {
	n := m.pickNode("pNode")
	from := m.pickSpender("pFrom")
	if m.cfg.Serialized {
		// a wallet spends again only when, on every node, every tip descends from its previous spend: then all
		// spends of one wallet are ancestor-related and the merge double-spend cannot arise by construction
		if h, ok := m.lastSpend[from]; ok {
			for i := range m.w.Nodes {
				for t := range m.snaps[i].Tips() {
					if _, desc := m.w.Arch.Anc(t)[h]; !desc && t != h {
						// not yet: bring every node up to date and merge the tips, so that a later attempt can respend
						m.label("c02:serialized-skip")
						for j := range m.w.Nodes {
							m.w.Apply(sim.Op{K: "deliverAll", N: j})
						}
						n := m.pickNode("sNode")
						m.w.Apply(sim.Op{K: "propose", N: n, From: 0, To: 1, Data: 5})
						for j := range m.w.Nodes {
							m.w.Apply(sim.Op{K: "deliverAll", N: j})
						}
						return "serialized mode: deliverAll everywhere + merging data vertex"
					}
				}
			}
			m.label("c02:serialized-respend")
		}
	}
	to := m.pickReceiver("pTo", from)
	amt := m.drawAmount(n, from, "pAmt")
	data := 0
	if rapid.IntRange(0, 5).Draw(m.rt, "pData") == 0 {
		data = rapid.IntRange(1, 64).Draw(m.rt, "pDataLen")
	}
	bal := m.viewBalance(n, from)
	over := ref.V(amt).Cmp(bal) > 0
	counter := rapid.IntRange(0, 4).Draw(m.rt, "pCounter") == 0
	if counter {
		m.label("offer:receiver-countersigned-transaction")
	}
	r := m.w.Apply(sim.Op{K: "propose", N: n, From: from, To: to, C: amt.Currency, S: amt.SupplementaryCurrency, Data: data, Counter: counter})
	m.noteResult("C01", r, "CreateLeaf")
	if r.Vertex != nil {
		m.pendingCreated = append(m.pendingCreated, lmCreated{n, r.Vertex, m.snaps[n]})
		if over {
			m.overdraw[r.Vertex.Hash] = true
			m.label("offer:overdraw-proposal")
		}
		m.lastSpend[from] = r.Vertex.Hash
		if to == 0 && false {
			m.genesisIssuerIn = true
		}
	}
	return fmt.Sprintf("propose(node %d, %s->%s %d.%018d data %d) = %s", n, m.w.Wallets[from].Name, m.w.Wallets[to].Name, amt.Currency, amt.SupplementaryCurrency, data, errClass(r.Err))
}

// tipsOf returns current tips (by declared parents) of node n in deterministic order.
func (m *lm) tipsOf(n int) []ref.Hash {
	return ref.SortedHashes(m.snaps[n].Tips())
}

func (m *lm) opCraft() string {
	n := m.pickNode("cNode")
	from := m.pickSpender("cFrom")
	to := m.pickReceiver("cTo", from)
	amt := m.drawAmount(n, from, "cAmt")
	sealer := m.w.RogueWallet(rapid.IntRange(0, 1).Draw(m.rt, "cSealer"))
	// parents: tips of node n, or any live vertex
	live := ref.SortedHashes(m.snaps[n].LiveSet())
	tips := m.tipsOf(n)
	if len(live) == 0 {
		m.label("state:ledger-empty")
		return ""
	}
	pick := func(label string) ref.Hash {
		if len(tips) > 0 && rapid.IntRange(0, 3).Draw(m.rt, label+"Tip") > 0 {
			return tips[rapid.IntRange(0, len(tips)-1).Draw(m.rt, label+"TipIdx")]
		}
		return live[rapid.IntRange(0, len(live)-1).Draw(m.rt, label+"Idx")]
	}
	l := pick("cL")
	r := l
	if rapid.IntRange(0, 3).Draw(m.rt, "cSameParents") > 0 {
		r = pick("cR")
	}
	// classify against the history the vertex builds on
	H := ref.Union(m.w.Arch.Anc(l), m.w.Arch.Anc(r), m.snaps[n].StoredSet())
	H[l], H[r] = struct{}{}, struct{}{}
	in, out := m.w.Arch.Flow(H, m.w.Wallets[from].Addr)
	over := new(big.Int).Add(out, ref.V(amt)).Cmp(in) > 0
	if from == to {
		over = out.Cmp(in) > 0
	}
	var weight uint64
	if rapid.IntRange(0, 7).Draw(m.rt, "cOddWeight") == 0 {
		weight = rapid.Uint64Range(1, 200).Draw(m.rt, "cWeight")
	}
	counter := rapid.IntRange(0, 3).Draw(m.rt, "cCounter") == 0
	if counter {
		m.label("offer:receiver-countersigned-transaction")
	}
	res := m.w.Apply(sim.Op{K: "craft", Sealer: sealer, From: from, To: to, C: amt.Currency, S: amt.SupplementaryCurrency, L: m.w.OrderIndex(l), R: m.w.OrderIndex(r), W: weight, Counter: counter})
	v := res.Vertex
	if rapid.IntRange(0, 3).Draw(m.rt, "cTamperFirst") == 0 {
		// a tampered copy (one sealed field changed, not re-sealed) reaches the node before the original
		kind := rapid.IntRange(0, len(sim.TamperKinds)-1).Draw(m.rt, "cTamperKind")
		tr := m.w.Apply(sim.Op{K: "tamper", N: n, V: m.w.OrderIndex(v.Hash), Cnt: kind})
		m.noteResult("C09", tr, "AddLeaf")
		m.label("offer:tampered-copy:" + sim.TamperKinds[kind])
		if counter {
			m.label("offer:tampered-copy-of-countersigned")
		}
		if tr.Err == nil {
			m.addViol("C09", "tampered-admitted", "node %d accepted a copy of %s with %s changed and the seal left as it was", n, m.describe(v), sim.TamperKinds[kind])
		}
	}
	if over {
		m.overdraw[v.Hash] = true
		m.label("offer:overdraw-rogue-vertex")
	}
	if l == r {
		m.label("offer:equal-parents")
	}
	// usually deliver to the node right away
	desc := fmt.Sprintf("craft(%s sealed by %s on %s,%s overdraw=%v)", m.describe(v), m.w.Wallets[sealer].Name, short(l), short(r), over)
	if rapid.IntRange(0, 4).Draw(m.rt, "cDeliverNow") > 0 {
		d := m.w.Apply(sim.Op{K: "deliver", N: n, V: m.w.OrderIndex(v.Hash)})
		m.noteResult("C01", d, "AddLeaf")
		desc += fmt.Sprintf(" deliver(node %d)=%s", n, errClass(d.Err))
	}
	return desc
}

func (m *lm) opDeliver() string {
	n := m.pickNode("dNode")
	pool := m.w.PoolList(n)
	if len(pool) == 0 {
		return ""
	}
	h := pool[rapid.IntRange(0, len(pool)-1).Draw(m.rt, "dIdx")]
	d := m.w.Apply(sim.Op{K: "deliver", N: n, V: m.w.OrderIndex(h)})
	m.noteResult("C01", d, "AddLeaf")
	if errClass(d.Err) == "parent-missing" {
		m.label("delivery:child-before-parent")
	}
	return fmt.Sprintf("deliver(node %d, %s)=%s", n, short(h), errClass(d.Err))
}

func (m *lm) opDeliverAll() string {
	n := m.pickNode("daNode")
	if m.w.PoolSize(n) == 0 {
		return ""
	}
	r := m.w.Apply(sim.Op{K: "deliverAll", N: n})
	m.noteResult("C01", r, "AddLeaf")
	// drain parked orphans as far as they go
	for k := 0; k < 60; k++ {
		if len(sim.ParkedList(m.w.Nodes[n].Book)) == 0 {
			break
		}
		rr := m.w.Apply(sim.Op{K: "retry", N: n})
		m.noteResult("C13", rr, "retry")
	}
	return fmt.Sprintf("deliverAll(node %d)", n)
}

func (m *lm) opRetry() string {
	n := m.pickNode("rNode")
	if len(m.snaps[n].Parked) == 0 {
		return ""
	}
	r := m.w.Apply(sim.Op{K: "retry", N: n})
	m.noteResult("C13", r, "retry")
	return fmt.Sprintf("retry(node %d)=%s", n, errClass(r.Err))
}

func (m *lm) opTrust() string {
	n := m.pickNode("tNode")
	sealer := m.w.RogueWallet(0)
	on := !m.snaps[n].Trusted[m.w.Wallets[sealer].Addr]
	k := "untrust"
	if on {
		k = "trust"
	}
	m.w.Apply(sim.Op{K: k, N: n, Sealer: sealer})
	m.label("op:" + k)
	return fmt.Sprintf("%s(node %d, rogue0)", k, n)
}

// opDup: replay operators for C03.
func (m *lm) opDup() string {
	n := m.pickNode("uNode")
	ord := m.w.Arch.Order
	if len(ord) < 2 {
		return ""
	}
	h := ord[rapid.IntRange(1, len(ord)-1).Draw(m.rt, "uIdx")]
	v := m.w.Arch.V[h]
	m.dupOffer++
	switch rapid.IntRange(0, 4).Draw(m.rt, "uKind") {
	case 4: // one fresh transaction sealed twice (two sealers), both vertices - and sometimes the bare transaction - reach the node at once
		tips := m.tipsOf(n)
		if len(tips) == 0 {
			return ""
		}
		m.label("dup:concurrent-two-sealings-of-fresh-tx")
		p := tips[rapid.IntRange(0, len(tips)-1).Draw(m.rt, "uTip2")]
		p2 := tips[rapid.IntRange(0, len(tips)-1).Draw(m.rt, "uTip3")]
		from := m.pickSpender("uFrom")
		to := m.pickReceiver("uTo", from)
		a := m.w.Apply(sim.Op{K: "craft", Sealer: m.w.RogueWallet(0), From: from, To: to, Data: 5, L: m.w.OrderIndex(p), R: m.w.OrderIndex(p)}).Vertex
		b := m.w.Apply(sim.Op{K: "craft-dup", Sealer: m.w.RogueWallet(1), V: m.w.OrderIndex(a.Hash), L: m.w.OrderIndex(p2)}).Vertex
		sub := []sim.Op{{K: "deliver", N: n, V: m.w.OrderIndex(a.Hash)}, {K: "deliver", N: n, V: m.w.OrderIndex(b.Hash)}}
		switch rapid.IntRange(0, 3).Draw(m.rt, "uMix") {
		case 1: // both sealed vertices and the bare transaction
			sub = append(sub, sim.Op{K: "repropose", N: n, V: m.w.OrderIndex(a.Hash)})
		case 2: // the bare transaction proposed by three callers at once (the sealed vertices stay undelivered)
			m.label("dup:concurrent-proposals-of-one-fresh-tx")
			sub = []sim.Op{{K: "repropose", N: n, V: m.w.OrderIndex(a.Hash)}, {K: "repropose", N: n, V: m.w.OrderIndex(a.Hash)}, {K: "repropose", N: n, V: m.w.OrderIndex(a.Hash)}}
		case 3: // two proposals and one sealed vertex
			m.label("dup:concurrent-proposals-of-one-fresh-tx")
			sub = []sim.Op{{K: "repropose", N: n, V: m.w.OrderIndex(a.Hash)}, {K: "repropose", N: n, V: m.w.OrderIndex(a.Hash)}, {K: "deliver", N: n, V: m.w.OrderIndex(b.Hash)}}
		}
		r := m.w.Apply(sim.Op{K: "batch", Sub: sub})
		oks := 0
		for _, s := range r.Sub {
			m.noteResult("C03", s, "AddLeaf")
			if s.Err == nil {
				oks++
			}
		}
		if oks > 1 {
			// not a verdict by itself (a first vertex may legitimately have been dropped as an invalid tip by the second
			// call); the ledger oracle right after this step decides (one live vertex per transaction, index exact)
			m.label("dup:more-than-one-concurrent-call-succeeded")
		}
		return fmt.Sprintf("dup-concurrent-two-sealings(node %d, %s and %s, %d calls) ok=%d", n, short(a.Hash), short(b.Hash), len(sub), oks)
	case 0: // re-deliver a vertex (admitted, parked, checkpointed or dropped)
		m.label("dup:redeliver-vertex")
		d := m.w.Apply(sim.Op{K: "deliver", N: n, V: m.w.OrderIndex(h)})
		m.noteResult("C03", d, "AddLeaf")
		return fmt.Sprintf("dup-deliver(node %d, %s)=%s", n, short(h), errClass(d.Err))
	case 1: // re-propose the same transaction
		m.label("dup:repropose-tx")
		tx := v.Transaction
		r := m.w.Apply(sim.Op{K: "repropose", N: n, V: m.w.OrderIndex(h)})
		m.noteResult("C03", r, "CreateLeaf")
		// a transaction whose tentative vertex was dropped everywhere may be proposed again
		inLedger := false
		s := m.snaps[n]
		for _, lv := range s.Live {
			if lv.Transaction.Hash == tx.Hash {
				inLedger = true
			}
		}
		for _, sv := range s.Stored {
			if sv.Transaction.Hash == tx.Hash {
				inLedger = true
			}
		}
		if !inLedger && errors.Is(r.Err, accountant.ErrTrxInVertexAlreadyExists) {
			m.addViol("C03", "repropose-after-drop-refused", "node %d: transaction %s is in no vertex of the ledger but re-proposing it is refused as already existing", n, short(tx.Hash))
		}
		if !inLedger {
			m.label("dup:repropose-after-drop")
		}
		return fmt.Sprintf("dup-propose(node %d, tx of %s)=%s", n, short(h), errClass(r.Err))
	case 2: // the same transaction wrapped by another sealer
		m.label("dup:second-sealer")
		tips := m.tipsOf(n)
		if len(tips) == 0 {
			return ""
		}
		p := tips[rapid.IntRange(0, len(tips)-1).Draw(m.rt, "uTip")]
		sealer := m.w.RogueWallet(1)
		v2 := m.w.Apply(sim.Op{K: "craft-dup", Sealer: sealer, V: m.w.OrderIndex(h), L: m.w.OrderIndex(p)}).Vertex
		d := m.w.Apply(sim.Op{K: "deliver", N: n, V: m.w.OrderIndex(v2.Hash)})
		m.noteResult("C03", d, "AddLeaf")
		return fmt.Sprintf("dup-second-sealer(node %d, tx of %s as %s)=%s", n, short(h), short(v2.Hash), errClass(d.Err))
	default: // concurrent duplicates of one vertex / transaction
		m.label("dup:concurrent")
		idx := m.w.OrderIndex(h)
		sub := []sim.Op{{K: "deliver", N: n, V: idx}, {K: "deliver", N: n, V: idx}, {K: "deliver", N: n, V: idx}}
		r := m.w.Apply(sim.Op{K: "batch", Sub: sub})
		for _, s := range r.Sub {
			m.noteResult("C03", s, "AddLeaf")
		}
		return fmt.Sprintf("dup-concurrent-deliver(node %d, %s x3)", n, short(h))
	}
}

// opRuleBreak: C10 offers.
func (m *lm) opRuleBreak() string {
	n := m.pickNode("bNode")
	kind := rapid.SampledFrom([]string{"self-sealed", "genesis-issuer", "empty"}).Draw(m.rt, "bKind")
	via := rapid.SampledFrom([]string{"propose", "gossip", "orphan"}).Draw(m.rt, "bVia")
	m.label("rulebreak:" + kind + "/" + via)
	var from, sealer int
	amt := spice.New(1, 0)
	data := 0
	to := 1
	// the rule is about the transaction's issuer, whatever it carries: spice, a contract payload, or both
	switch rapid.SampledFrom([]string{"spice", "data", "both"}).Draw(m.rt, "bPayload") {
	case "data":
		amt, data = spice.Melange{}, 24
	case "both":
		data = 7
	}
	switch kind {
	case "self-sealed":
		from = m.w.NodeWallet(n) // the node's own wallet as issuer
		sealer = from
	case "genesis-issuer":
		from = m.w.NodeWallet(0) // node 0's wallet issued genesis
		sealer = m.w.RogueWallet(0)
	case "empty":
		from = 0
		amt, data = spice.Melange{}, 0
		sealer = m.w.RogueWallet(0)
	}
	if via == "propose" {
		pn := n
		if kind == "genesis-issuer" && len(m.w.Nodes) > 1 && rapid.Bool().Draw(m.rt, "bOtherNode") {
			pn = (n + 1) % len(m.w.Nodes)
		}
		r := m.w.Apply(sim.Op{K: "propose", N: pn, From: from, To: to, C: amt.Currency, S: amt.SupplementaryCurrency, Data: data})
		m.noteResult("C10", r, "CreateLeaf")
		if r.Vertex != nil {
			m.ruleBreak[r.Vertex.Hash] = kind
		}
		return fmt.Sprintf("rulebreak-propose(%s at node %d)=%s", kind, pn, errClass(r.Err))
	}
	tips := m.tipsOf(n)
	if len(tips) == 0 {
		return ""
	}
	p := tips[rapid.IntRange(0, len(tips)-1).Draw(m.rt, "bTip")]
	if via == "orphan" {
		// child first: seal an ordinary parent that is withheld, put the rule-breaking vertex on top of it
		pv := m.w.Apply(sim.Op{K: "craft-parent", L: m.w.OrderIndex(p)}).Vertex
		res := m.w.Apply(sim.Op{K: "craft", Sealer: sealer, From: from, To: to, C: amt.Currency, S: amt.SupplementaryCurrency, Data: data, L: m.w.OrderIndex(pv.Hash), R: m.w.OrderIndex(pv.Hash)})
		m.ruleBreak[res.Vertex.Hash] = kind
		d1 := m.w.Apply(sim.Op{K: "deliver", N: n, V: m.w.OrderIndex(res.Vertex.Hash)})
		d2 := m.w.Apply(sim.Op{K: "deliver", N: n, V: m.w.OrderIndex(pv.Hash)})
		rr := m.w.Apply(sim.Op{K: "retry", N: n})
		m.noteResult("C10", d1, "AddLeaf")
		m.noteResult("C10", d2, "AddLeaf")
		m.noteResult("C10", rr, "retry")
		return fmt.Sprintf("rulebreak-orphan(%s at node %d): child=%s parent=%s retry=%s", kind, n, errClass(d1.Err), errClass(d2.Err), errClass(rr.Err))
	}
	res := m.w.Apply(sim.Op{K: "craft", Sealer: sealer, From: from, To: to, C: amt.Currency, S: amt.SupplementaryCurrency, Data: data, L: m.w.OrderIndex(p), R: m.w.OrderIndex(p)})
	m.ruleBreak[res.Vertex.Hash] = kind
	d := m.w.Apply(sim.Op{K: "deliver", N: n, V: m.w.OrderIndex(res.Vertex.Hash)})
	m.noteResult("C10", d, "AddLeaf")
	return fmt.Sprintf("rulebreak-gossip(%s at node %d)=%s", kind, n, errClass(d.Err))
}

func (m *lm) opBatch() string {
	n := m.pickNode("xNode")
	k := rapid.IntRange(2, 8).Draw(m.rt, "xK")
	from := m.pickSpender("xFrom")
	var sub []sim.Op
	for j := 0; j < k; j++ {
		f := from
		if rapid.Bool().Draw(m.rt, "xOtherFrom") {
			f = m.pickSpender("xFrom2")
		}
		to := m.pickReceiver("xTo", f)
		amt := m.drawAmount(n, f, "xAmt")
		sub = append(sub, sim.Op{K: "propose", N: n, From: f, To: to, C: amt.Currency, S: amt.SupplementaryCurrency})
	}
	r := m.w.Apply(sim.Op{K: "batch", Sub: sub})
	okN := 0
	for _, s := range r.Sub {
		m.noteResult("C01", s, "CreateLeaf")
		if s.Err == nil {
			okN++
		}
	}
	m.label("op:concurrent-batch")
	return fmt.Sprintf("batch(node %d, %d parallel proposals, %d accepted)", n, k, okN)
}

// opBalance: C06 oracle on a balance query.
func (m *lm) opBalance() string {
	n := m.pickNode("qNode")
	var addr string
	var name string
	bop := sim.Op{K: "balance", N: n}
	switch rapid.IntRange(0, 9).Draw(m.rt, "qKind") {
	case 0:
		bop.Note = "absent"
		m.label("c06:addr-absent")
	case 1:
		bop.Note = "genesis-issuer"
		m.label("c06:addr-genesis-issuer")
	case 2:
		bop.Addr = rapid.IntRange(0, m.w.NumWallets()-1).Draw(m.rt, "qAny")
	default:
		bop.Addr = m.pickSpender("qWallet")
	}
	addr, name = m.w.AddrOf(bop), bop.Note
	if name == "" {
		name = m.w.Wallets[bop.Addr].Name
	}
	before := m.snaps[n]
	dBefore := before.Digest(true)
	reps := 3
	var answers []string
	for k := 0; k < reps; k++ {
		res := m.w.Apply(bop)
		got, err := res.Balance, res.Err
		if errors.Is(err, sim.ErrStuck) {
			m.stuckViol("balance", err)
			return "balance STUCK"
		}
		if sim.IsPanic(err) {
			m.addViol("C06", "panic", "CalculateBalance panicked: %v", err)
			return "balance PANIC"
		}
		nv := len(m.viol)
		m.judgeBalance(n, before, addr, name, got, err)
		if len(m.viol) > nv && m.orphanEver {
			// vertices were parked in this history: the node's own 2 s ticker may have admitted one between the snapshot the
			// reference was computed from and the query. The answer must then match the ledger as it is now.
			saved := append([]lmViolation(nil), m.viol[nv:]...)
			m.viol = m.viol[:nv]
			if fresh, e := m.w.Snapshot(m.w.Nodes[n]); e == nil {
				m.judgeBalance(n, fresh, addr, name, got, err)
				if len(m.viol) == nv {
					m.label("c06:answer-matches-the-ledger-after-a-ticker-admission")
				}
			} else {
				m.viol = append(m.viol, saved...)
			}
		}
		if err != nil {
			answers = append(answers, "err")
		} else {
			answers = append(answers, fmt.Sprintf("%d.%018d", got.Currency, got.SupplementaryCurrency))
		}
	}
	after, err := m.w.Snapshot(m.w.Nodes[n])
	// with parked orphans the node's own 2 s retry ticker may admit or re-park one at any moment; only a ledger
	// without parked vertices is guaranteed to be touched by nothing but the query
	// (an empty parked list in the snapshot is not enough: the ticker may hold the popped vertex at that very moment)
	if err == nil && len(before.Parked) == 0 && len(after.Parked) == 0 && !m.orphanEver && after.Digest(true) != dBefore {
		m.addViol("C06", "query-changed-ledger", "node %d: balance query for %s changed the ledger snapshot", n, name)
	}
	return fmt.Sprintf("balance(node %d, %s)=%v", n, name, answers)
}

// judgeBalance: the answer must be f(t) for some tip t; error only if some f(t) < 0.
func (m *lm) judgeBalance(n int, s *sim.Snap, addr, name string, got spice.Melange, err error) {
	tips := s.Tips()
	if len(tips) >= 2 {
		m.label("c06:multi-tip")
	}
	if len(s.Stored) > 0 {
		m.label("c06:truncated")
	}
	live := s.LiveSet()
	stored := new(big.Int)
	if f, ok := s.Raw.Funds[addr]; ok {
		stored = ref.V(f)
	}
	type ft struct {
		tip ref.Hash
		val *big.Int
		in  *big.Int
	}
	var fts []ft
	anyNeg := false
	anyGrossOverflow := false
	max64 := new(big.Int).Mul(new(big.Int).SetUint64(^uint64(0)), new(big.Int).SetUint64(ref.E18))
	max64.Add(max64, new(big.Int).SetUint64(ref.E18-1))
	for t := range tips {
		set := m.w.Arch.AncWithin(t, live)
		set[t] = struct{}{}
		in, out := m.w.Arch.Flow(set, addr)
		val := new(big.Int).Add(stored, in)
		val.Sub(val, out)
		if val.Sign() < 0 {
			anyNeg = true
		}
		if in.Cmp(max64) > 0 || out.Cmp(max64) > 0 || new(big.Int).Add(stored, in).Cmp(max64) > 0 {
			anyGrossOverflow = true
		}
		fts = append(fts, ft{t, val, in})
	}
	if err != nil {
		if len(tips) == 0 {
			m.label("c06:no-tip")
			return // "over one current tip": a ledger without any tip has no defined answer
		}
		if anyNeg {
			m.label("c06:error-for-negative")
			return
		}
		if anyGrossOverflow {
			m.addViol("C06", "gross-flow-overflow", "node %d: balance query for %s returns an error (%v) although the balance is non-negative: the wallet's gross inflow/outflow exceeds 2^64 units and the separate in/out accumulators overflow", n, name, err)
			return
		}
		m.addViol("C06", "spurious-error", "node %d: balance query for %s returned error %v although the reference balance is non-negative on every tip (%d tips)", n, name, err, len(tips))
		return
	}
	gv := ref.V(got)
	for _, f := range fts {
		if f.val.Sign() >= 0 && f.val.Cmp(gv) == 0 {
			return
		}
	}
	var want []string
	for _, f := range fts {
		want = append(want, fmt.Sprintf("tip %s: %s", short(f.tip), f.val))
	}
	sort.Strings(want)
	sig := "wrong-balance"
	if !spiceCanon(got) {
		sig = "noncanonical-balance"
	}
	m.addViol("C06", sig, "node %d: balance query for %s returned %s; reference (checkpoint %s + received - sent over one tip and its ancestors): {%s}", n, name, gv, stored, strings.Join(want, "; "))
}

func spiceCanon(m spice.Melange) bool { return m.SupplementaryCurrency < ref.E18 }

// opTruncate grows the DAG past the truncation depth and truncates node n (expensive).
func (m *lm) opTruncate() string {
	n := m.pickNode("zNode")
	cnt := 1001 + rapid.IntRange(0, 120).Draw(m.rt, "zExtra")
	r := m.w.Apply(sim.Op{K: "filler", N: n, Cnt: cnt, V: 1})
	if r.Err != nil {
		m.noteResult("C07", r, "filler")
		return fmt.Sprintf("filler failed: %v", r.Err)
	}
	m.observe("filler")
	t := m.w.Apply(sim.Op{K: "truncate", N: n})
	m.noteResult("C07", t, "truncate")
	m.truncated[n] = true
	m.label("op:truncate")
	return fmt.Sprintf("filler(%d)+truncate(node %d)=%s", cnt, n, errClass(t.Err))
}

// ---------- run ----------

type lmTrace struct {
	Config lmConfig `json:"config"`
	Seed   string   `json:"seed"`
	Ops    []sim.Op `json:"ops"`
	Log    []string `json:"log"`
}

// lmRun executes one generated history. Returns the machine (for labels/violations) and the human log.
func lmRun(rt *rapid.T, focus string, cfg lmConfig, seed string) (*lm, []string, error) {
	m, err := lmNew(rt, cfg, seed)
	if err != nil {
		if m != nil && m.w != nil {
			m.w.Close()
		}
		return nil, nil, err
	}
	var log []string
	type wop struct {
		name string
		w    int
	}
	ops := []wop{{"propose", 10}, {"balance", 2}}
	if cfg.Nodes > 1 {
		ops = append(ops, wop{"deliver", 8}, wop{"deliverAll", 3}, wop{"retry", 2})
	}
	if cfg.Rogue {
		ops = append(ops, wop{"craft", 7})
		if cfg.Nodes == 1 {
			ops = append(ops, wop{"deliver", 2}, wop{"retry", 1})
		}
	}
	if cfg.Trusted {
		ops = append(ops, wop{"trust", 2})
	}
	if cfg.Dups {
		ops = append(ops, wop{"dup", 6})
	}
	if cfg.RuleBreak {
		ops = append(ops, wop{"rulebreak", 6})
	}
	if cfg.Concurrent {
		ops = append(ops, wop{"batch", 2})
	}
	if focus == "C06" {
		ops = append(ops, wop{"balance", 8})
	}
	var bag []string
	for _, o := range ops {
		for k := 0; k < o.w; k++ {
			bag = append(bag, o.name)
		}
	}
	truncAt := -1
	if cfg.Truncate {
		truncAt = rapid.IntRange(2, cfg.Steps-1).Draw(rt, "truncAt")
	}
	for step := 0; step < cfg.Steps && m.stuck == nil; step++ {
		var desc string
		if step == truncAt {
			desc = m.opTruncate()
		} else {
			switch rapid.SampledFrom(bag).Draw(rt, "op") {
			case "propose":
				desc = m.opPropose()
			case "craft":
				desc = m.opCraft()
			case "deliver":
				desc = m.opDeliver()
			case "deliverAll":
				desc = m.opDeliverAll()
			case "retry":
				desc = m.opRetry()
			case "trust":
				desc = m.opTrust()
			case "dup":
				desc = m.opDup()
			case "rulebreak":
				desc = m.opRuleBreak()
			case "batch":
				desc = m.opBatch()
			case "balance":
				desc = m.opBalance()
			}
		}
		if desc == "" {
			continue
		}
		log = append(log, desc)
		m.observe(desc)
		// quiescent evaluation for conservation
		if !m.cfg.Trusted && !m.tainted {
			m.oracleC02(desc)
		}
		if len(m.viol) > 0 && focusHas(m.viol, focus) {
			break
		}
	}
	// final quiescence: deliver everything everywhere, then judge conservation once more
	if m.stuck == nil && cfg.Nodes > 1 && !focusHas(m.viol, focus) {
		for round := 0; round < 3; round++ {
			for i := range m.w.Nodes {
				m.w.Apply(sim.Op{K: "deliverAll", N: i})
				for k := 0; k < 80 && len(sim.ParkedList(m.w.Nodes[i].Book)) > 0; k++ {
					m.w.Apply(sim.Op{K: "retry", N: i})
				}
			}
		}
		m.observe("final deliverAll")
		if !m.cfg.Trusted && !m.tainted {
			m.oracleC02("final deliverAll")
		}
		log = append(log, "final deliverAll on every node")
	}
	return m, log, nil
}

func focusHas(v []lmViolation, focus string) bool {
	for _, x := range v {
		if x.Prop == focus {
			return true
		}
	}
	return false
}
