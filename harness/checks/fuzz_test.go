package checks

import (
	"bytes"
	"encoding/hex"
	"encoding/json"
	"fmt"
	"os"
	"path/filepath"
	"sync"
	"testing"
	"time"

	"github.com/bartossh/Computantis/src/accountant"
	"github.com/bartossh/Computantis/src/protobufcompiled"
	"github.com/bartossh/Computantis/src/spice"
	"github.com/bartossh/Computantis/src/transaction"
	"google.golang.org/protobuf/proto"
	"google.golang.org/protobuf/types/known/emptypb"

	"verif/harness/ref"
	"verif/harness/sim"
)

// Native coverage-guided fuzz targets (thorough tier only: Go's fuzzer cannot be seeded or bounded by case count).
// Each target decodes the fuzzer's bytes into structured arguments and applies the SAME oracle as the property's
// rapid/enumeration check; a recognised known finding returns instead of failing so the campaign continues.

var fuzzKnown = map[string]map[string]bool{}
var fuzzMu sync.Mutex

func fuzzReport(t *testing.T, prop, sig, msg string, c any) {
	fuzzMu.Lock()
	k, ok := fuzzKnown[prop]
	if !ok {
		k = loadKnown(prop)
		fuzzKnown[prop] = k
	}
	fuzzMu.Unlock()
	if k[sig] {
		return
	}
	path := filepath.Join(replayDir(prop), fmt.Sprintf("%s-fuzz-%s.json", prop, sanitize(sig)))
	b, _ := json.MarshalIndent(map[string]any{"property": prop, "sig": sig, "msg": msg, "case": c}, "", " ")
	os.WriteFile(path, b, 0o644)
	t.Fatalf("VIOLATION property=%s sig=%s replay=%s\n%s", prop, sig, path, msg)
}

func FuzzC05(f *testing.F) {
	for _, a := range []uint64{0, 1, e18 - 1, e18, ^uint64(0) - 1, ^uint64(0)} {
		f.Add(uint8(1), a, e18-a%e18, uint64(3), uint64(1), ^uint64(0)-a, a%e18)
		f.Add(uint8(0), a, a, a, a, a, a)
	}
	f.Fuzz(func(t *testing.T, op uint8, ac, as, fc, fs, tc, ts uint64) {
		c := c05Case{Op: []string{"supply", "transfer", "drain"}[op%3], Amount: melJSON{ac, as}, From: melJSON{fc, fs}, To: melJSON{tc, ts}}
		if c.Op == "supply" {
			c.From = melJSON{}
		}
		sig, msg, _ := c05Judge(c)
		if sig != "" {
			if a, fr, to := c.Amount.mel(), c.From.mel(), c.To.mel(); sig != "panic" && !(canon(a) && canon(to) && (c.Op == "supply" || canon(fr))) {
				sig = "noncanonical-operand-accepted"
			}
			fuzzReport(t, "C05", sig, msg, c)
		}
	})
}

func FuzzC19(f *testing.F) {
	f.Add([]byte("subject"), []byte("data"), []byte{}, uint64(1), uint64(2), uint64(3), int64(1_700_000_000_000_000_000), int64(5), uint8(3))
	f.Add([]byte{0xff, 0xfe, 0x00}, bytes.Repeat([]byte{7}, 300), bytes.Repeat([]byte{1}, 64), ^uint64(0), e18, uint64(1<<63), int64(-1), int64(1<<62), uint8(0))
	f.Add([]byte{}, []byte{}, []byte{1}, uint64(0), uint64(0), uint64(0), int64(0), int64(0), uint8(1))
	f.Fuzz(func(t *testing.T, subject, data, rsig []byte, cur, supp, weight uint64, txn, vxn int64, flags uint8) {
		tr := transaction.Transaction{
			CreatedAt: time.Unix(0, txn), IssuerAddress: c19A.Addr, ReceiverAddress: c19B.Addr, Subject: string(subject), Data: data,
			ReceiverSignature: []byte{}, Spice: spice.Melange{Currency: cur, SupplementaryCurrency: supp},
		}
		signed := flags&1 == 1
		var v accountant.Vertex
		if signed {
			tr.Hash, tr.IssuerSignature = c19A.Sign(ref.TxMessage(&tr))
			if flags&2 == 2 {
				ref.CounterSign(&tr, c19B)
			}
			v = ref.Seal(tr, ref.Hash{1}, ref.Hash{2}, weight, time.Unix(0, vxn), c19S)
		} else {
			tr.IssuerSignature, tr.ReceiverSignature = rsig, rsig
			copy(tr.Hash[:], data)
			v = accountant.Vertex{SignerPublicAddress: string(subject), CreatedAt: time.Unix(0, vxn), Signature: rsig, Transaction: tr, Weight: weight}
			copy(v.Hash[:], rsig)
			copy(v.LeftParentHash[:], subject)
		}
		if sig, msg := c19JudgeVertex(v, signed); sig != "" {
			fuzzReport(t, "C19", sig, msg, map[string]any{"subject_hex": hex.EncodeToString(subject), "data_hex": hex.EncodeToString(data), "rsig_hex": hex.EncodeToString(rsig),
				"cur": cur, "supp": supp, "weight": weight, "tx_nanos": txn, "vx_nanos": vxn, "flags": flags})
		}
	})
}

func FuzzC20(f *testing.F) {
	seed := bytes.Repeat([]byte{9}, 32)
	key := bytes.Repeat([]byte{0xAB}, 32)
	f.Add(seed, key, []byte{}, true, uint16(0), uint8(0))
	f.Add(seed, key[:16], []byte{}, true, uint16(13), uint8(0x80))
	f.Add(seed, key, bytes.Repeat([]byte{1}, 11), false, uint16(0), uint8(0))
	f.Add(seed, key, bytes.Repeat([]byte{1}, 27), false, uint16(0), uint8(0))
	f.Fuzz(func(t *testing.T, seed, key, file []byte, fromSaved bool, pos uint16, mask uint8) {
		if len(seed) != 32 || (len(key) != 16 && len(key) != 32) {
			t.Skip()
		}
		dir := t.TempDir()
		w := walletFromSeed(seed)
		keyHex := hex.EncodeToString(key)
		saved, err := c20Save(dir, &w, keyHex)
		if err != nil {
			t.Skip()
		}
		c := c20Case{Seed: hex.EncodeToString(seed), Key: keyHex, ReadKey: keyHex, Kind: "fuzz"}
		if fromSaved {
			file = append([]byte(nil), saved...)
			if mask != 0 && len(file) > 0 {
				file[int(pos)%len(file)] ^= mask
			}
		}
		c.File = hex.EncodeToString(file)
		if sig, msg := c20Judge(dir, c, saved); sig != "" {
			fuzzReport(t, "C20", sig, msg, c)
		}
	})
}

var fuzzC15Env *c15Env
var fuzzC15Calls int

var fuzzC15RPCs = []string{"notary.Propose", "notary.Confirm", "notary.Reject", "notary.Waiting", "notary.Saved", "notary.Data", "notary.TransactionsInDAG",
	"notary.Balance", "gossip.Announce", "gossip.Discover", "gossip.GossipVrx", "gossip.GossipTrx", "gossip.GetVertex", "webhooks.Webhooks", "notary.Alive"}

func fuzzC15Msg(rpc string) proto.Message {
	switch rpc {
	case "notary.Propose", "notary.Confirm":
		return &protobufcompiled.Transaction{}
	case "notary.Data":
		return &protobufcompiled.Address{}
	case "gossip.Announce", "gossip.Discover":
		return &protobufcompiled.ConnectionData{}
	case "gossip.GossipVrx":
		return &protobufcompiled.VrxMsgGossip{}
	case "gossip.GossipTrx":
		return &protobufcompiled.TrxMsgGossip{}
	case "notary.Alive":
		return &emptypb.Empty{}
	}
	return &protobufcompiled.SignedHash{}
}

// FuzzC15: bytes -> proto.Unmarshal into the request type of the chosen RPC -> the real handler, C15's oracle.
func FuzzC15(f *testing.F) {
	sim.Chdir(os.TempDir())
	// seed corpus: serialized structured requests of every type, valid and hostile
	if e, err := c15NewEnv("c15-fuzz-corpus"); err == nil {
		n := 0
		e.signedHashShapes(func(m *protobufcompiled.SignedHash, desc string) {
			n++
			if n%97 == 0 {
				if b, err := proto.Marshal(m); err == nil {
					for _, i := range []int{2, 3, 4, 7, 12, 13} {
						f.Add(uint8(i), b)
					}
				}
			}
		})
		n = 0
		e.trxShapes(func(m *protobufcompiled.Transaction, desc string) {
			n++
			if n%4001 == 0 {
				if b, err := proto.Marshal(m); err == nil {
					f.Add(uint8(0), b)
					f.Add(uint8(1), b)
					if g, err := proto.Marshal(&protobufcompiled.TrxMsgGossip{Trx: m}); err == nil {
						f.Add(uint8(11), g)
					}
				}
			}
		})
		e.vertexShapes(func(v *protobufcompiled.Vertex, desc string) {
			if b, err := proto.Marshal(&protobufcompiled.VrxMsgGossip{Vertex: v, Gossipers: e.gossiperLists(nil)["[valid,nil]"]}); err == nil {
				f.Add(uint8(10), b)
			}
		})
		e.s.close()
	}
	f.Fuzz(func(t *testing.T, rpcIdx uint8, data []byte) {
		rpc := fuzzC15RPCs[int(rpcIdx)%len(fuzzC15RPCs)]
		msg := fuzzC15Msg(rpc)
		if err := proto.Unmarshal(data, msg); err != nil {
			t.Skip() // not a protobuf-decodable message of that type
		}
		if fuzzC15Env == nil || fuzzC15Calls > 4000 {
			if fuzzC15Env != nil {
				fuzzC15Env.s.close()
			}
			e, err := c15NewEnv(fmt.Sprintf("c15-fuzz-%d", time.Now().UnixNano()))
			if err != nil {
				t.Skip()
			}
			fuzzC15Env, fuzzC15Calls = e, 0
		}
		fuzzC15Calls++
		sig, text, _, wedged := fuzzC15Env.c15Call(rpc, msg, "fuzzed "+rpc)
		if sig != "" || wedged {
			fuzzC15Env.s.close()
			fuzzC15Env = nil
		}
		if sig != "" {
			fuzzReport(t, "C15", sig, text, c15Req{RPC: rpc, Desc: "fuzzed", Proto: data})
		}
	})
}
