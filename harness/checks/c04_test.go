package checks

import (
	"bytes"
	"crypto/ed25519"
	"fmt"
	"testing"
	"time"

	"github.com/bartossh/Computantis/src/accountant"
	"github.com/bartossh/Computantis/src/gossip"
	"github.com/bartossh/Computantis/src/spice"
	"github.com/bartossh/Computantis/src/transaction"
	"github.com/bartossh/Computantis/src/wallet"
	"github.com/mr-tron/base58"
	"pgregory.net/rapid"

	"verif/harness/ref"
	"verif/harness/sim"
)

// C04 — tamper evidence: altered vertices and transactions are never admitted.

type c04Mut struct {
	Orig  int    `json:"orig"`  // which original (0 spice, 1 contract, 2 countersigned contract, 3 spice+data, 4 countersigned contract addressed to its own issuer)
	Op    string `json:"op"`    // mutation operator
	Field string `json:"field"` // field it applies to
	A     int    `json:"a"`     // position / amount
	B     int    `json:"b"`
	Wire  bool   `json:"wire"`  // applied to the protobuf message and mapped back
	Trust bool   `json:"trust"` // the receiving node trusts the sealing node (funds test exempt - verification is not)
}

type c04World struct {
	w     *sim.World
	origs []*accountant.Vertex
	other *accountant.Vertex // a second valid vertex for field swaps
	base  string             // snapshot digest
	// refDisagrees: an original sealed by the code does not recompute under the harness's own digest code
	refDisagrees bool
}

func c04NewWorld(seed string, trust bool) (*c04World, error) {
	w, err := sim.NewWorld(sim.Config{Nodes: 1, Users: 3, GenesisC: 1000, Seed: seed})
	if err != nil {
		return nil, err
	}
	cw := &c04World{w: w}
	if trust {
		if err := w.Nodes[0].Book.AddTrustedNode(w.Wallets[w.RogueWallet(0)].Addr); err != nil {
			return cw, err
		}
	}
	for i := 0; i < 4; i++ {
		// funding transfers are sealed over the code's own message layout (GetMessage), so that a change to the
		// layout leaves the world buildable and is judged by the mutants instead of ending inconclusive
		ftx := w.MakeTx(0, 1+i%3, spice.New(5, 0), 0)
		ftx.Hash, ftx.IssuerSignature = w.Wallets[0].Sign(ftx.GetMessage())
		if r := w.ProposeTx(0, ftx); r.Err != nil {
			return cw, r.Err
		}
	}
	s, err := w.Snapshot(w.Nodes[0])
	if err != nil {
		return cw, err
	}
	tips := ref.SortedHashes(s.Tips())
	tip := tips[0]
	prev := w.Arch.V[tip].LeftParentHash
	// The originals are produced by the code's OWN constructors (transaction.New, Transaction.Sign, accountant.NewVertex
	// with the harness keys as signers): tamper evidence is a metamorphic statement - whatever the code signs, a changed
	// copy must be refused - so the check does not depend on the harness agreeing with the code about the digest format.
	var mkErr error
	mk := func(amt spice.Melange, data int, counter bool, self ...bool) *accountant.Vertex {
		rcv := w.Wallets[2]
		if len(self) > 0 && self[0] {
			rcv = w.Wallets[1] // a contract a wallet addresses to itself: issuer and receiver are one key
		}
		tx, err := transaction.New("subject-of-contract", amt, sim.DataBytes(data, int64(data)+7), rcv.Addr, w.Wallets[1])
		if err != nil {
			mkErr = err
			return &accountant.Vertex{}
		}
		if counter {
			if _, err := tx.Sign(rcv, wallet.NewVerifier()); err != nil {
				mkErr = err
			}
		}
		v, err := accountant.NewVertex(tx, tip, prev, w.Arch.V[tip].Weight+1, w.Wallets[w.RogueWallet(0)])
		if err != nil {
			mkErr = err
		}
		return &v
	}
	cw.origs = []*accountant.Vertex{mk(spice.New(1, 500), 0, false), mk(spice.Melange{}, 32, false), mk(spice.Melange{}, 300, true), mk(spice.New(2, 0), 1, false), mk(spice.Melange{}, 40, true, true)}
	cw.other = mk(spice.New(3, 7), 17, true)
	if mkErr != nil {
		return cw, fmt.Errorf("building originals: %w", mkErr)
	}
	for _, o := range append(cw.origs, cw.other) {
		if !ref.VertexValid(o) {
			cw.refDisagrees = true // the code's digest format differs from the documented one: C09's concern, noted here
		}
	}
	cw.base = s.Digest(true)
	return cw, nil
}

func flipBytes(b []byte, bit int) []byte {
	out := append([]byte(nil), b...)
	if len(out) == 0 {
		return out
	}
	bit %= len(out) * 8
	out[bit/8] ^= 1 << (bit % 8)
	return out
}

func flipStr(s string, bit int) string { return string(flipBytes([]byte(s), bit)) }

var c04Fields = []string{"hash", "left", "right", "signature", "signer", "weight", "createdAt", "tx.hash", "tx.issuerSig", "tx.receiverSig",
	"tx.data", "tx.subject", "tx.issuer", "tx.receiver", "tx.createdAt", "tx.cur", "tx.supp"}

var c04Fixed = map[string]int{"hash": 256, "left": 256, "right": 256, "signature": 512, "weight": 64, "createdAt": 64, "tx.hash": 256,
	"tx.issuerSig": 512, "tx.receiverSig": 512, "tx.createdAt": 64, "tx.cur": 64, "tx.supp": 64}

// c04Apply returns the mutant (nil if the operator does not apply to this original).
func c04Apply(cw *c04World, m c04Mut) *accountant.Vertex {
	o := cw.origs[m.Orig%len(cw.origs)]
	v := sim.CloneVertex(o)
	t := &v.Transaction
	oth := cw.other
	switch m.Op {
	case "flip":
		switch m.Field {
		case "hash":
			copy(v.Hash[:], flipBytes(v.Hash[:], m.A))
		case "left":
			copy(v.LeftParentHash[:], flipBytes(v.LeftParentHash[:], m.A))
		case "right":
			copy(v.RightParentHash[:], flipBytes(v.RightParentHash[:], m.A))
		case "signature":
			v.Signature = flipBytes(v.Signature, m.A)
		case "signer":
			v.SignerPublicAddress = flipStr(v.SignerPublicAddress, m.A)
		case "weight":
			v.Weight ^= 1 << (m.A % 64)
		case "createdAt":
			v.CreatedAt = time.Unix(0, v.CreatedAt.UnixNano()^(1<<(m.A%63)))
		case "tx.hash":
			copy(t.Hash[:], flipBytes(t.Hash[:], m.A))
		case "tx.issuerSig":
			t.IssuerSignature = flipBytes(t.IssuerSignature, m.A)
		case "tx.receiverSig":
			if len(t.ReceiverSignature) == 0 {
				return nil
			}
			t.ReceiverSignature = flipBytes(t.ReceiverSignature, m.A)
		case "tx.data":
			if len(t.Data) == 0 {
				return nil
			}
			t.Data = flipBytes(t.Data, m.A)
		case "tx.subject":
			t.Subject = flipStr(t.Subject, m.A)
		case "tx.issuer":
			t.IssuerAddress = flipStr(t.IssuerAddress, m.A)
		case "tx.receiver":
			t.ReceiverAddress = flipStr(t.ReceiverAddress, m.A)
		case "tx.createdAt":
			t.CreatedAt = time.Unix(0, t.CreatedAt.UnixNano()^(1<<(m.A%63)))
		case "tx.cur":
			t.Spice.Currency ^= 1 << (m.A % 64)
		case "tx.supp":
			t.Spice.SupplementaryCurrency ^= 1 << (m.A % 64)
		}
	case "pm1":
		d := uint64(1)
		if m.A%2 == 1 {
			d = ^uint64(0)
		}
		switch m.Field {
		case "weight":
			v.Weight += d
		case "createdAt":
			v.CreatedAt = v.CreatedAt.Add(time.Duration(int64(d)))
		case "tx.createdAt":
			t.CreatedAt = t.CreatedAt.Add(time.Duration(int64(d)))
		case "tx.cur":
			t.Spice.Currency += d
		case "tx.supp":
			t.Spice.SupplementaryCurrency += d
		default:
			return nil
		}
	case "truncate", "extend", "empty":
		adj := func(b []byte) []byte {
			switch m.Op {
			case "truncate":
				if len(b) == 0 {
					return b
				}
				return append([]byte(nil), b[:len(b)-1-m.A%len(b)]...)
			case "extend":
				return append(append([]byte(nil), b...), bytes.Repeat([]byte{byte(m.A)}, 1+m.A%5)...)
			}
			return []byte{}
		}
		switch m.Field {
		case "signature":
			v.Signature = adj(v.Signature)
		case "tx.issuerSig":
			t.IssuerSignature = adj(t.IssuerSignature)
		case "tx.receiverSig":
			if len(t.ReceiverSignature) == 0 && m.Op != "extend" {
				return nil
			}
			t.ReceiverSignature = adj(t.ReceiverSignature)
		case "tx.data":
			if len(t.Data) == 0 && m.Op != "extend" {
				return nil
			}
			t.Data = adj(t.Data)
		case "tx.subject":
			t.Subject = string(adj([]byte(t.Subject)))
		case "tx.issuer":
			t.IssuerAddress = string(adj([]byte(t.IssuerAddress)))
		case "tx.receiver":
			t.ReceiverAddress = string(adj([]byte(t.ReceiverAddress)))
		case "signer":
			v.SignerPublicAddress = string(adj([]byte(v.SignerPublicAddress)))
		default:
			return nil
		}
	case "shift": // move bytes across an adjacent boundary of the signed message subject|data|issuer|receiver
		k := 1 + m.A%4
		switch m.Field {
		case "subject>data":
			if len(t.Subject) <= k {
				return nil
			}
			t.Data = append([]byte(t.Subject[len(t.Subject)-k:]), t.Data...)
			t.Subject = t.Subject[:len(t.Subject)-k]
		case "data>subject":
			if len(t.Data) < k {
				return nil
			}
			t.Subject += string(t.Data[:k])
			t.Data = append([]byte(nil), t.Data[k:]...)
		case "data>issuer":
			if len(t.Data) < k {
				return nil
			}
			t.IssuerAddress = string(t.Data[len(t.Data)-k:]) + t.IssuerAddress
			t.Data = append([]byte(nil), t.Data[:len(t.Data)-k]...)
		case "issuer>data":
			t.Data = append(append([]byte(nil), t.Data...), t.IssuerAddress[:k]...)
			t.IssuerAddress = t.IssuerAddress[k:]
		case "issuer>receiver":
			t.ReceiverAddress = t.IssuerAddress[len(t.IssuerAddress)-k:] + t.ReceiverAddress
			t.IssuerAddress = t.IssuerAddress[:len(t.IssuerAddress)-k]
		case "receiver>issuer":
			t.IssuerAddress += t.ReceiverAddress[:k]
			t.ReceiverAddress = t.ReceiverAddress[k:]
		default:
			return nil
		}
	case "swap": // take the field from a second valid vertex
		switch m.Field {
		case "hash":
			v.Hash = oth.Hash
		case "left":
			v.LeftParentHash, v.RightParentHash = v.RightParentHash, v.LeftParentHash
		case "signature":
			v.Signature = append([]byte(nil), oth.Signature...)
		case "weight":
			v.Weight = oth.Weight + 3
		case "createdAt":
			v.CreatedAt = oth.CreatedAt.Add(time.Second)
		case "tx.hash":
			t.Hash = oth.Transaction.Hash
		case "tx.issuerSig":
			t.IssuerSignature = append([]byte(nil), oth.Transaction.IssuerSignature...)
		case "tx.receiverSig":
			t.ReceiverSignature = append([]byte(nil), oth.Transaction.ReceiverSignature...)
		case "tx.data":
			t.Data = append([]byte(nil), oth.Transaction.Data...)
		case "tx.subject":
			t.Subject = "another subject"
		case "tx.issuer":
			t.IssuerAddress = cw.w.Wallets[3].Addr
		case "tx.receiver":
			t.ReceiverAddress = cw.w.Wallets[3].Addr
		case "tx.cur":
			t.Spice = oth.Transaction.Spice
		case "tx":
			v.Transaction = sim.CloneVertex(oth).Transaction
		case "signer":
			v.SignerPublicAddress = cw.w.Wallets[cw.w.RogueWallet(1)].Addr
		default:
			return nil
		}
	case "resign": // signatures replaced by those of another wallet over the same content
		switch m.Field {
		case "tx.issuerSig":
			_, t.IssuerSignature = cw.w.Wallets[3].Sign(ref.TxMessage(t))
		case "tx.receiverSig":
			if len(t.ReceiverSignature) == 0 {
				return nil
			}
			_, t.ReceiverSignature = cw.w.Wallets[3].Sign(ref.TxMessage(t))
		case "signature":
			_, v.Signature = cw.w.Wallets[cw.w.RogueWallet(1)].Sign(ref.VertexMessage(&v))
		default:
			return nil
		}
	case "strip":
		if len(t.ReceiverSignature) == 0 {
			return nil
		}
		if m.A%2 == 0 {
			t.ReceiverSignature = []byte{}
		} else {
			t.ReceiverSignature = nil
		}
	case "addr": // corrupt one base58 character / add or remove the leading '1'
		corrupt := func(a string) string {
			switch m.B % 3 {
			case 0:
				b := []byte(a)
				i := m.A % len(b)
				const alpha = "123456789ABCDEFGHJKLMNPQRSTUVWXYZabcdefghijkmnopqrstuvwxyz"
				b[i] = alpha[(bytes.IndexByte([]byte(alpha), b[i])+1+m.A)%len(alpha)]
				return string(b)
			case 1:
				return "1" + a
			}
			return a[1:]
		}
		switch m.Field {
		case "signer":
			v.SignerPublicAddress = corrupt(v.SignerPublicAddress)
		case "tx.issuer":
			t.IssuerAddress = corrupt(t.IssuerAddress)
		case "tx.receiver":
			t.ReceiverAddress = corrupt(t.ReceiverAddress)
		default:
			return nil
		}
	case "alias": // re-encode the decoded address with another version byte / padded key but matching legacy checksum
		raw, err := base58.Decode(v.SignerPublicAddress)
		if err != nil {
			return nil
		}
		raw[0] ^= byte(1 + m.A%255)
		alias := base58.Encode(raw)
		switch m.Field {
		case "signer":
			v.SignerPublicAddress = alias
		default:
			return nil
		}
	default:
		return nil
	}
	if m.Wire {
		pv := gossip.VerifVertexToProto(&v)
		back := gossip.VerifProtoToVertex(pv)
		return &back
	}
	return &v
}

// c04Judge offers the mutant. tainted=true means the ledger changed (world must be rebuilt).
func c04Judge(cw *c04World, m c04Mut) (sig, msg string, nontrivial, tainted bool) {
	mut := c04Apply(cw, m)
	if mut == nil {
		return "", "", false, false
	}
	o := cw.origs[m.Orig%len(cw.origs)]
	if vrxDiff(o, mut) == "" {
		return "", "", false, false // equal in every signed field after decoding: the original itself
	}
	nontrivial = true
	var aerr error
	g := sim.GuardT(20*time.Second, func() error { aerr = cw.w.Nodes[0].Book.AddLeaf(bg, mut); return nil })
	if g != nil {
		return "call-failed:" + m.Op, fmt.Sprintf("AddLeaf of mutant %+v: %v", m, g), true, true
	}
	s, err := cw.w.Snapshot(cw.w.Nodes[0])
	if err != nil {
		return "", "", true, true
	}
	changed := s.Digest(true) != cw.base
	opName := m.Op + "(" + m.Field + ")"
	if m.Op == "strip" {
		opName = "strip()"
	}
	if aerr == nil {
		return "admitted:" + opName, fmt.Sprintf("mutant %s of a valid vertex (original %d: %s) was ADMITTED; differs from the original in %s", opName, m.Orig%len(cw.origs), describeOrig(m.Orig), vrxDiff(o, mut)), true, true
	}
	if changed {
		return "rejected-but-ledger-changed:" + opName, fmt.Sprintf("mutant %s was rejected (%v) but the ledger snapshot (incl. orphan buffer) changed", opName, aerr), true, true
	}
	return "", "", true, false
}

func describeOrig(i int) string {
	return []string{"spice transfer", "contract (32B data)", "countersigned contract (300B data)", "spice+1B data", "countersigned contract addressed to its own issuer"}[i%5]
}

// c04AddressSelfCheck: a corrupted address is rejected or resolves to the same key, never to a different one.
func c04AddressSelfCheck(addr string, orig ed25519.PublicKey, mutated string) (string, string) {
	h := wallet.NewVerifier()
	var k ed25519.PublicKey
	var err error
	var pn any
	func() {
		defer func() { pn = recover() }()
		k, err = h.AddressToPubKey(mutated)
	}()
	if pn != nil {
		return "address-panic", fmt.Sprintf("AddressToPubKey(%q) panicked: %v", mutated, pn)
	}
	if err != nil {
		return "", ""
	}
	if mutated == addr {
		if !bytes.Equal(k, orig) {
			return "address-wrong-key", "valid address resolved to another key"
		}
		return "", ""
	}
	if bytes.Equal(k, orig) {
		return "address-alias-accepted", fmt.Sprintf("corrupted address %q (original %q) is accepted and resolves to the original key: the address is not self-checking", mutated, addr)
	}
	return "address-resolves-to-different-key", fmt.Sprintf("corrupted address %q resolves to a different key", mutated)
}

func TestC04(t *testing.T) {
	st := newStats(t, "C04", "cases = (original valid vertex in {spice, contract, countersigned contract, spice+data}, mutation operator in {flip bit, +-1, truncate, extend, empty, shift bytes across adjacent signed-message fields, swap with another valid vertex's field, re-sign by another wallet, strip receiver signature, corrupt/alias an address}, field, position), at struct level and through the wire mapping; oracle = AddLeaf returns an error and the snapshot digest (live, stored, index, orphan buffer) is unchanged; address clause: AddressToPubKey of a corrupted address errors; non-trivial = mutant differs from the original in >=1 signed field; enumerated tuples distinct by construction, random by fingerprint")
	sim.Chdir(workDir(t))
	var cw *c04World
	cws := map[bool]*c04World{}
	worlds := 0
	curTrust := false
	fresh := func() bool {
		if old := cws[curTrust]; old != nil {
			old.w.Close()
		}
		worlds++
		nw, err := c04NewWorld(fmt.Sprintf("c04-%d-%d", shard(), worlds), curTrust)
		if err != nil {
			st.inconclusive("world: " + err.Error())
			return false
		}
		cws[curTrust] = nw
		cw = nw
		if nw.refDisagrees {
			st.label("note:code-sealed-original-does-not-recompute-under-the-reference-digest(C09's concern)")
		}
		return true
	}
	use := func(trust bool) bool {
		curTrust = trust
		if cws[trust] == nil {
			return fresh()
		}
		cw = cws[trust]
		return true
	}
	if !use(false) {
		return
	}
	defer func() {
		for _, x := range cws {
			x.w.Close()
		}
	}()
	exhausted := false
	run := func(m c04Mut, enumerated bool) bool {
		if exhausted {
			st.label("skipped:world-budget-exhausted")
			return true
		}
		if !use(m.Trust) {
			return true
		}
		if m.Trust {
			st.label("receiver-trusts-sealer")
		}
		sig, msg, nt, tainted := c04Judge(cw, m)
		st.eval(1)
		if nt {
			if enumerated {
				st.enumNontrivial(1)
			} else {
				st.nontrivial(fp64(fmt.Sprintf("%+v", m)))
			}
		}
		ok := true
		if sig != "" {
			st.label("flagged:" + sig)
			if enumerated {
				ok = !st.reportOnce(sig, msg, m)
			} else {
				ok = !st.report(sig, msg, m)
			}
			if st.isKnown(sig) {
				st.exclude(1)
			}
		}
		if tainted {
			st.label("world-rebuilt")
			if worlds > 150 || !fresh() {
				exhausted = true // never judge on a tainted ledger
				if len(st.Violations) == 0 {
					st.inconclusive("world budget exhausted by admitted mutants")
				}
			}
		}
		return ok
	}
	sh, n := shard(), nshards()
	t.Run("enum", func(t *testing.T) {
		failed := false
		idx := 0
		do := func(m c04Mut) {
			idx++
			if idx%n != sh {
				return
			}
			if !run(m, true) {
				failed = true
			}
		}
		norig := scale(3, 5)
		for o := 0; o < norig; o++ {
			oi := []int{2, 4, 0, 1, 3}[o]
			// all single-bit flips of every fixed-width field
			for f, bits := range c04Fixed {
				for b := 0; b < bits; b++ {
					do(c04Mut{Orig: oi, Op: "flip", Field: f, A: b})
				}
			}
			for _, f := range []string{"signer", "tx.issuer", "tx.receiver", "tx.subject", "tx.data"} {
				for b := 0; b < 64; b++ {
					do(c04Mut{Orig: oi, Op: "flip", Field: f, A: b * 5})
				}
			}
			for _, f := range c04Fields {
				for a := 0; a < 4; a++ {
					for _, op := range []string{"pm1", "truncate", "extend", "empty", "swap", "resign"} {
						do(c04Mut{Orig: oi, Op: op, Field: f, A: a})
						do(c04Mut{Orig: oi, Op: op, Field: f, A: a, Wire: true})
						do(c04Mut{Orig: oi, Op: op, Field: f, A: a, Trust: true})
					}
				}
				for b := 0; b < 12; b++ {
					do(c04Mut{Orig: oi, Op: "flip", Field: f, A: b * 37, Trust: true})
				}
			}
			do(c04Mut{Orig: oi, Op: "swap", Field: "tx"})
			for _, f := range []string{"subject>data", "data>subject", "data>issuer", "issuer>data", "issuer>receiver", "receiver>issuer"} {
				for a := 0; a < 4; a++ {
					do(c04Mut{Orig: oi, Op: "shift", Field: f, A: a})
				}
			}
			do(c04Mut{Orig: oi, Op: "strip", A: 0})
			do(c04Mut{Orig: oi, Op: "strip", A: 1})
			for _, f := range []string{"signer", "tx.issuer", "tx.receiver"} {
				for a := 0; a < 50; a++ {
					for b := 0; b < 3; b++ {
						do(c04Mut{Orig: oi, Op: "addr", Field: f, A: a, B: b})
					}
				}
			}
			for a := 0; a < 8; a++ {
				do(c04Mut{Orig: oi, Op: "alias", Field: "signer", A: a * 31})
			}
		}
		// address self-check (pure)
		k := ref.NewKey("c04-addr", []byte("addr"))
		const alpha = "123456789ABCDEFGHJKLMNPQRSTUVWXYZabcdefghijkmnopqrstuvwxyz"
		for i := 0; i < len(k.Addr); i++ {
			for j := 0; j < len(alpha); j++ {
				idx++
				if idx%n != sh {
					continue
				}
				b := []byte(k.Addr)
				if b[i] == alpha[j] {
					continue
				}
				b[i] = alpha[j]
				st.eval(1)
				st.enumNontrivial(1)
				if sig, msg := c04AddressSelfCheck(k.Addr, k.Pub, string(b)); sig != "" && st.reportOnce(sig, msg, map[string]string{"address": k.Addr, "mutated": string(b)}) {
					failed = true
				}
			}
		}
		raw, _ := base58.Decode(k.Addr)
		for i := 0; i < len(raw); i++ {
			for bit := 0; bit < 8; bit++ {
				r2 := append([]byte(nil), raw...)
				r2[i] ^= 1 << bit
				st.eval(1)
				st.enumNontrivial(1)
				if sig, msg := c04AddressSelfCheck(k.Addr, k.Pub, base58.Encode(r2)); sig != "" && st.reportOnce(sig, msg, map[string]string{"address": k.Addr, "mutated": base58.Encode(r2)}) {
					failed = true
				}
			}
		}
		for _, mut := range []string{"1" + k.Addr, k.Addr[1:], k.Addr + "1", k.Addr[:len(k.Addr)-1], "", "1", "0OIl"} {
			st.eval(1)
			if sig, msg := c04AddressSelfCheck(k.Addr, k.Pub, mut); sig != "" && st.reportOnce(sig, msg, map[string]string{"address": k.Addr, "mutated": mut}) {
				failed = true
			}
		}
		st.Exhaustive = true
		st.sample(c04Mut{Orig: 2, Op: "flip", Field: "tx.receiverSig", A: 77})
		if failed {
			t.Errorf("C04: violations in enumeration")
		}
	})
	t.Run("random", func(t *testing.T) {
		rapid.Check(t, func(rt *rapid.T) {
			if pastSoftDeadline(st) {
				return
			}
			m := c04Mut{
				Orig:  rapid.IntRange(0, 4).Draw(rt, "orig"),
				Op:    rapid.SampledFrom([]string{"flip", "flip", "flip", "pm1", "truncate", "extend", "empty", "shift", "swap", "resign", "strip", "addr", "alias"}).Draw(rt, "op"),
				Field: rapid.SampledFrom(append(append([]string{}, c04Fields...), "subject>data", "data>subject", "data>issuer", "issuer>data", "issuer>receiver", "receiver>issuer", "tx")).Draw(rt, "field"),
				A:     rapid.IntRange(0, 4000).Draw(rt, "a"),
				B:     rapid.IntRange(0, 2).Draw(rt, "b"),
				Wire:  rapid.Bool().Draw(rt, "wire"),
				Trust: rapid.IntRange(0, 3).Draw(rt, "trust") == 0,
			}
			if !run(m, false) {
				rt.Fatalf("C04 violated: %+v", m)
			}
			st.sample(m)
		})
	})
	// sanity: the untouched originals are admitted (otherwise every rejection above is vacuous)
	use(false)
	for i, o := range cw.origs {
		if exhausted {
			break
		}
		c := sim.CloneVertex(o)
		if err := cw.w.Nodes[0].Book.AddLeaf(bg, &c); err != nil {
			st.inconclusive(fmt.Sprintf("sanity: untouched original %d is not admitted: %v", i, err))
			t.Errorf("sanity failed: %v", err)
		}
		break // the originals share parents; admitting one is enough and keeps the rest admissible
	}
}

func TestReplayC04(t *testing.T) {
	var raw map[string]any
	loadReplay(t, &raw)
	if _, ok := raw["mutated"]; ok {
		var a struct{ Address, Mutated string }
		loadReplay(t, &a)
		k, err := ref.AddressKey(a.Address)
		if err != nil {
			t.Skip("bad address in replay")
		}
		if sig, msg := c04AddressSelfCheck(a.Address, k, a.Mutated); sig != "" {
			t.Fatalf("VIOLATION reproduced sig=%s: %s", sig, msg)
		}
		return
	}
	var m c04Mut
	loadReplay(t, &m)
	sim.Chdir(t.TempDir())
	cw, err := c04NewWorld("c04-replay", m.Trust)
	if err != nil {
		t.Skipf("world: %v", err)
	}
	defer cw.w.Close()
	if sig, msg, _, _ := c04Judge(cw, m); sig != "" {
		t.Fatalf("VIOLATION reproduced sig=%s: %s", sig, msg)
	}
}
