package checks

import (
	"bytes"
	"fmt"
	"runtime"
	"sort"
	"sync"
	"testing"
	"time"

	"github.com/bartossh/Computantis/src/cache"
	"github.com/bartossh/Computantis/src/spice"
	"github.com/bartossh/Computantis/src/transaction"
	"pgregory.net/rapid"

	"verif/harness/ref"
)

// C17 — the awaiting-transaction index never loses or invents entries.

var c17Epoch = time.Unix(1_700_000_000, 0)

type c17Op struct {
	K    string `json:"k"` // save | resave | remove | read | expire | balsave | balremove (the balance entries of the same cache)
	From int    `json:"from"`
	To   int    `json:"to"`
	Tx   int    `json:"tx"` // index into the case's transaction list (remove/resave)
	By   int    `json:"by"` // wallet index acting (remove), -1 unknown hash
}

type c17Case struct {
	Wallets int     `json:"wallets"`
	Ops     []c17Op `json:"ops"`
}

func c17Keys(n int) []*ref.Key {
	ks := make([]*ref.Key, n)
	for i := range ks {
		ks[i] = ref.NewKey(fmt.Sprintf("c17-%d", i), []byte{byte(i)})
	}
	return ks
}

func c17Listing(h *cache.Hippocampus, addr string) (map[ref.Hash]transaction.Transaction, error) {
	trxs, err := h.ReadTransactions(addr)
	out := map[ref.Hash]transaction.Transaction{}
	for _, t := range trxs {
		if _, dup := out[t.Hash]; dup {
			return out, fmt.Errorf("listing contains %x twice", t.Hash[:4])
		}
		out[t.Hash] = t
	}
	if err != nil && len(trxs) > 0 {
		return out, fmt.Errorf("listing returned entries and error %v", err)
	}
	return out, nil
}

// c17Run replays a sequential case against a fresh cache and a map model.
func c17Run(c c17Case) (sig, msg string, nontrivial bool) {
	h, err := cache.New(4096, 64)
	if err != nil {
		return "", "", false
	}
	defer h.Close()
	ks := c17Keys(c.Wallets)
	var txs []transaction.Transaction
	model := map[ref.Hash]transaction.Transaction{}
	removedAfterSave := false
	for step, op := range c.Ops {
		switch op.K {
		case "save":
			tx := ref.MakeTx(fmt.Sprintf("c17 %d", step), spice.Melange{}, []byte{byte(step), 1, 2, 3}, ks[op.To].Addr, ks[op.From], c17Epoch.Add(time.Duration(step)*time.Millisecond))
			txs = append(txs, tx)
			err := h.SaveAwaitedTransaction(&tx)
			if err != nil {
				return "save-failed", fmt.Sprintf("step %d: saving a new transaction failed: %v", step, err), nontrivial
			}
			model[tx.Hash] = tx
		case "resave":
			if len(txs) == 0 {
				continue
			}
			tx := txs[op.Tx%len(txs)]
			// (an expired transaction may be saved again: it is awaiting again and listed once, although the address
			// lists may still name its hash from before - found listed twice, fixed in /repo)
			_, present := model[tx.Hash]
			err := h.SaveAwaitedTransaction(&tx)
			if present && err == nil {
				return "duplicate-save-accepted", fmt.Sprintf("step %d: saving an already awaiting transaction succeeded", step), nontrivial
			}
			if !present {
				if err != nil {
					return "save-failed", fmt.Sprintf("step %d: re-saving a removed transaction failed: %v", step, err), nontrivial
				}
				model[tx.Hash] = tx
			}
		case "remove":
			var hash ref.Hash
			var want *transaction.Transaction
			if op.By < 0 || len(txs) == 0 {
				hash = ref.Hash{0xde, 0xad, byte(step)}
			} else {
				t := txs[op.Tx%len(txs)]
				hash = t.Hash
				if m, ok := model[hash]; ok {
					want = &m
				}
			}
			by := ks[(op.By+c.Wallets*4)%c.Wallets].Addr
			got, err := h.RemoveAwaitedTransaction(hash, by)
			allowed := want != nil && want.ReceiverAddress == by
			if err == nil && !allowed {
				return "unauthorized-remove-succeeded", fmt.Sprintf("step %d: removal by a non-receiver / of an unknown hash returned success", step), nontrivial
			}
			if allowed {
				nontrivial = true
				removedAfterSave = true
				if got.Hash != hash {
					return "remove-wrong-trx", fmt.Sprintf("step %d: removal returned another transaction", step), nontrivial
				}
				delete(model, hash)
			}
		case "read":
		case "expire":
			// the life window of the cache ends for one saved transaction: its entry disappears, the per-address lists
			// still name its hash until a reader prunes them; from now on it must not be listed and must not drag a
			// neighbour out of (or keep a dead hash in) any listing
			if len(txs) == 0 {
				continue
			}
			t := txs[op.Tx%len(txs)]
			if _, ok := model[t.Hash]; !ok {
				continue
			}
			if err := h.VerifExpireTransaction(t.Hash); err != nil {
				continue
			}
			delete(model, t.Hash)
			nontrivial = true
		case "balsave":
			// the same cache object also holds balances, keyed by the address string the notary passes in
			h.SaveBalance(ks[op.From%c.Wallets].Addr, spice.New(uint64(step), 7))
		case "balremove":
			// the notary drops cached balances of a sealed transfer's issuer AND receiver; the receiver address of a
			// transfer is whatever string the client put there, so any key can arrive here - none may touch a listing
			key := ks[op.From%c.Wallets].Addr
			switch op.By {
			case 1:
				key = "address-" + key
				nontrivial = true
			case 2:
				if len(txs) > 0 {
					key = fmt.Sprintf("trx-%x", txs[op.Tx%len(txs)].Hash[:])
					nontrivial = true
				}
			}
			h.RemoveBalance(key)
		}
		// Reading a listing prunes stale hashes as a side effect, so reading every address after every step would
		// repair (and hide) a list that a removal left inconsistent. Listings are therefore compared only where the
		// generated sequence itself reads: the address named by a "read" step, and every address after the last step.
		for wi, k := range ks {
			if !(op.K == "read" && wi == op.From%c.Wallets) && step != len(c.Ops)-1 {
				continue
			}
			got, lerr := c17Listing(h, k.Addr)
			if lerr != nil {
				return "listing-corrupt", fmt.Sprintf("step %d (%+v): wallet %d: %v", step, op, wi, lerr), nontrivial
			}
			want := map[ref.Hash]transaction.Transaction{}
			for hh, t := range model {
				if t.IssuerAddress == k.Addr || t.ReceiverAddress == k.Addr {
					want[hh] = t
				}
			}
			for hh, t := range want {
				g, ok := got[hh]
				if !ok {
					return "entry-lost", fmt.Sprintf("step %d (%+v): awaiting transaction %x is not listed for wallet %d", step, op, hh[:4], wi), nontrivial
				}
				if g.IssuerAddress != t.IssuerAddress || g.ReceiverAddress != t.ReceiverAddress || !bytes.Equal(g.Data, t.Data) || !bytes.Equal(g.IssuerSignature, t.IssuerSignature) || g.Subject != t.Subject || g.CreatedAt.UnixNano() != t.CreatedAt.UnixNano() {
					return "entry-altered", fmt.Sprintf("step %d: listed transaction %x differs from the saved one", step, hh[:4]), nontrivial
				}
			}
			for hh := range got {
				if _, ok := want[hh]; !ok {
					return "entry-invented", fmt.Sprintf("step %d (%+v): wallet %d lists %x which is not awaiting for it", step, op, wi, hh[:4]), nontrivial
				}
			}
		}
	}
	_ = removedAfterSave
	return "", "", nontrivial
}

type c17Batch struct {
	Wallets int  `json:"wallets"`
	Rounds  int  `json:"rounds"`
	Par     int  `json:"par"`
	Procs   int  `json:"gomaxprocs"`
	Dup     int  `json:"dup"`    // every third transaction of a round is saved by 1+Dup goroutines at once
	Resave  bool `json:"resave"` // every removal races with a re-save of the same transaction
}

// c17Concurrent: rounds of parallel saves (distinct transactions on shared addresses), removals of earlier ones and reads.
func c17Concurrent(c c17Batch) (sig, msg string) {
	h, err := cache.New(4096, 64)
	if err != nil {
		return "", ""
	}
	defer h.Close()
	old := runtime.GOMAXPROCS(c.Procs)
	defer runtime.GOMAXPROCS(old)
	ks := c17Keys(c.Wallets)
	model := map[ref.Hash]transaction.Transaction{}
	maybe := map[ref.Hash]transaction.Transaction{} // removal raced with a re-save: either outcome is a legal serialisation
	var prev []transaction.Transaction
	ctr := 0
	for r := 0; r < c.Rounds; r++ {
		var wg sync.WaitGroup
		var mu sync.Mutex
		var cur []transaction.Transaction
		var errs []string
		start := make(chan struct{})
		for g := 0; g < c.Par; g++ {
			ctr++
			tx := ref.MakeTx(fmt.Sprintf("c17c %d", ctr), spice.Melange{}, []byte{byte(ctr), byte(ctr >> 8)}, ks[(g+1)%c.Wallets].Addr, ks[g%2], c17Epoch.Add(time.Duration(ctr)*time.Millisecond))
			cur = append(cur, tx)
			copies := 1
			if g%3 == 0 {
				copies += c.Dup // the same transaction saved by several callers at once: one of them wins, it is listed once
			}
			for k := 0; k < copies; k++ {
				wg.Add(1)
				go func(tx transaction.Transaction, first bool) {
					defer wg.Done()
					<-start
					if err := h.SaveAwaitedTransaction(&tx); err != nil && first && copies == 1 {
						mu.Lock()
						errs = append(errs, "save: "+err.Error())
						mu.Unlock()
					}
				}(tx, k == 0)
			}
		}
		for i, tx := range prev {
			if i%2 == 0 {
				continue
			}
			wg.Add(1)
			go func(tx transaction.Transaction) {
				defer wg.Done()
				<-start
				if _, err := h.RemoveAwaitedTransaction(tx.Hash, tx.ReceiverAddress); err != nil {
					mu.Lock()
					errs = append(errs, "remove: "+err.Error())
					mu.Unlock()
				}
			}(tx)
			delete(model, tx.Hash)
			if c.Resave {
				maybe[tx.Hash] = tx
				wg.Add(1)
				go func(tx transaction.Transaction) {
					defer wg.Done()
					<-start
					h.SaveAwaitedTransaction(&tx)
				}(tx)
			}
		}
		for g := 0; g < 2; g++ {
			wg.Add(1)
			go func(g int) {
				defer wg.Done()
				<-start
				h.ReadTransactions(ks[g%c.Wallets].Addr)
			}(g)
		}
		close(start)
		wg.Wait()
		for _, tx := range cur {
			model[tx.Hash] = tx
		}
		prev = cur
		// quiescent comparison
		for wi, k := range ks {
			got, lerr := c17Listing(h, k.Addr)
			if lerr != nil {
				return "listing-corrupt", fmt.Sprintf("round %d wallet %d: %v", r, wi, lerr)
			}
			var lost, invented []string
			for hh, t := range model {
				if t.IssuerAddress == k.Addr || t.ReceiverAddress == k.Addr {
					if _, ok := got[hh]; !ok {
						lost = append(lost, fmt.Sprintf("%x", hh[:4]))
					}
				}
			}
			for hh := range got {
				if t, ok := maybe[hh]; ok && (t.IssuerAddress == k.Addr || t.ReceiverAddress == k.Addr) {
					// listed for one side means listed for the other side too
					other := t.IssuerAddress
					if other == k.Addr {
						other = t.ReceiverAddress
					}
					if og, oerr := c17Listing(h, other); oerr == nil {
						if _, both := og[hh]; !both {
							return "concurrent-listed-for-one-side-only", fmt.Sprintf("round %d: after a removal raced with a re-save, transaction %x is listed for wallet %d but not for its counterparty", r, hh[:4], wi)
						}
					}
					continue
				}
				if t, ok := model[hh]; !ok || (t.IssuerAddress != k.Addr && t.ReceiverAddress != k.Addr) {
					invented = append(invented, fmt.Sprintf("%x", hh[:4]))
				}
			}
			sort.Strings(lost)
			if len(lost) > 0 {
				return "concurrent-entry-lost", fmt.Sprintf("round %d: after %d parallel saves and %d parallel removals on shared addresses wallet %d's listing lacks %d awaiting transactions %v (call errors: %v)", r, c.Par, len(prev)/2, wi, len(lost), lost, errs)
			}
			if len(invented) > 0 {
				return "concurrent-entry-invented", fmt.Sprintf("round %d: wallet %d lists %v which are not awaiting (call errors: %v)", r, wi, invented, errs)
			}
		}
	}
	return "", ""
}

func TestC17(t *testing.T) {
	st := newStats(t, "C17", "sequential: rapid-generated save/resave/remove/read sequences over 2-5 addresses on a fresh cache, mixed with saves and removals of cached BALANCES on the same cache object (removal keys as the notary passes them: a sealed transfer's receiver string, i.e. anything, including 'address-<addr>' and 'trx-<hash>'), listings of every address compared with a map model after every step; concurrent: rounds of 4-32 parallel saves of distinct transactions (every third saved by 2-8 callers at once) + removals of earlier ones (optionally racing with a re-save of the same transaction) + reads on shared addresses with varied GOMAXPROCS, listings compared at quiescence: nothing lost, nothing invented, nothing listed twice, raced removals listed for both sides or for neither; non-trivial = sequence has a successful remove after a save (sequential) / every concurrent batch (overlapping ops on one address by construction); distinct by op-sequence / batch-shape fingerprint")
	t.Run("sequential", func(t *testing.T) {
		rapid.Check(t, func(rt *rapid.T) {
			if pastSoftDeadline(st) {
				return
			}
			c := c17Case{Wallets: rapid.IntRange(2, 5).Draw(rt, "wallets")}
			n := rapid.IntRange(1, 40).Draw(rt, "n")
			for i := 0; i < n; i++ {
				op := c17Op{K: rapid.SampledFrom([]string{"save", "save", "save", "save", "resave", "remove", "remove", "read", "read", "balsave", "balremove", "expire", "expire"}).Draw(rt, "k")}
				op.From = rapid.IntRange(0, c.Wallets-1).Draw(rt, "from")
				op.To = rapid.IntRange(0, c.Wallets-1).Draw(rt, "to")
				op.Tx = rapid.IntRange(0, 40).Draw(rt, "tx")
				op.By = rapid.IntRange(-1, c.Wallets-1).Draw(rt, "by")
				if op.K == "balremove" {
					op.By = rapid.IntRange(0, 2).Draw(rt, "balKey")
				}
				if op.K == "remove" && rapid.Bool().Draw(rt, "byReceiver") {
					op.By = -2 // resolved below: the receiver of the chosen tx
				}
				c.Ops = append(c.Ops, op)
			}
			// resolve "by receiver" deterministically: replay save order
			var tos []int
			for i := range c.Ops {
				if c.Ops[i].K == "save" {
					tos = append(tos, c.Ops[i].To)
				}
				if c.Ops[i].K == "remove" && c.Ops[i].By == -2 {
					if len(tos) == 0 {
						c.Ops[i].By = 0
					} else {
						c.Ops[i].By = tos[c.Ops[i].Tx%len(tos)]
					}
				}
			}
			sig, msg, nt := c17Run(c)
			st.eval(1)
			if nt {
				st.nontrivial(fp64(fmt.Sprintf("%+v", c)))
			}
			st.sample(c)
			if sig != "" && st.report(sig, msg, c) {
				rt.Fatalf("C17 violated (%s): %s", sig, msg)
			}
		})
	})
	t.Run("concurrent", func(t *testing.T) {
		n := scale(40, 600)
		failed := false
		for i := 0; i < n; i++ {
			c := c17Batch{Wallets: 2 + (i+shard())%3, Rounds: 6, Par: []int{4, 8, 16, 32}[(i/3)%4], Procs: []int{2, 4, 8, 16}[(i+shard())%4], Dup: []int{0, 1, 3, 7}[(i/2)%4], Resave: i%4 == 1}
			sig, msg := c17Concurrent(c)
			st.eval(1)
			st.nontrivial(fp64("conc", c.Wallets, c.Par, c.Procs, i, shard()))
			st.label(fmt.Sprintf("concurrent:par%d", c.Par))
			if sig != "" && st.reportOnce(sig, msg, map[string]any{"concurrent": c}) {
				failed = true
				break
			}
		}
		st.sample(map[string]any{"concurrent": c17Batch{Wallets: 3, Rounds: 6, Par: 16, Procs: 8}})
		if failed {
			t.Errorf("C17: concurrent violations")
		}
	})
}

func TestReplayC17(t *testing.T) {
	var raw map[string]any
	loadReplay(t, &raw)
	if _, ok := raw["concurrent"]; ok {
		var w struct {
			Concurrent c17Batch `json:"concurrent"`
		}
		loadReplay(t, &w)
		for i := 0; i < 50; i++ {
			if sig, msg := c17Concurrent(w.Concurrent); sig != "" {
				t.Fatalf("VIOLATION reproduced sig=%s: %s", sig, msg)
			}
		}
		return
	}
	var c c17Case
	loadReplay(t, &c)
	if sig, msg, _ := c17Run(c); sig != "" {
		t.Fatalf("VIOLATION reproduced sig=%s: %s", sig, msg)
	}
}
