package checks

import (
	"errors"
	"fmt"
	"time"

	"github.com/bartossh/Computantis/src/accountant"
	"github.com/bartossh/Computantis/src/spice"

	"verif/harness/ref"
	"verif/harness/sim"
)

// C13, long-lived target: the bounds of the statement (500 parked vertices, 25 retries each) are per vertex and per
// moment, not per lifetime of the node. One target node goes through many rounds; in each round a set of children
// arrives before its withheld parent, is retried a few times, and must be admitted once the parent has arrived -
// however many vertices the node has parked and retried in earlier rounds, and also when almost 500 are parked at once.

type c13Round struct {
	Shape  string `json:"shape"`  // fan (all children of the withheld parent), chain (forward order), rchain (reverse order)
	N      int    `json:"n"`      // children
	Passes int    `json:"passes"` // full retry passes over the parked set before the parent arrives
	Rot    int    `json:"rot"`    // rotation of the delivery order (fan)
}

type c13Long struct {
	Rounds []c13Round `json:"rounds"`
}

type c13LongStats struct {
	pops      int // retries triggered by the harness over the node's lifetime
	maxParked int
	admitted  int
}

func c13LongRun(c c13Long, seed string) (sig, msg string, stt c13LongStats, inconclusive string) {
	w, err := sim.NewWorld(sim.Config{Nodes: 2, Users: 3, GenesisC: 100000, Seed: seed})
	if err != nil {
		return "", "", stt, "world: " + err.Error()
	}
	defer w.Close()
	cw := &c13World{w: w}
	started := time.Now()
	tgt, err := c13Target(cw, "long-target")
	if err != nil {
		return "", "", stt, "target: " + err.Error()
	}
	book := tgt.Book
	anchor := w.Genesis.Hash
	txNo := 0
	craft := func(sealer int, l, r ref.Hash) (*accountant.Vertex, error) {
		txNo++
		tx := w.MakeTx(0, 1+txNo%3, spice.Melange{}, 3+txNo%9)
		v := w.Craft(w.RogueWallet(sealer), tx, l, r, 0)
		for n := 0; n < 2; n++ { // source and reference: the premise (a valid history, admitted parents-first)
			if d := w.DeliverVertex(n, v); d.Err != nil {
				return nil, fmt.Errorf("premise: node %d rejected %x parents-first: %w", n, v.Hash[:4], d.Err)
			}
		}
		return v, nil
	}
	live := func() map[ref.Hash]bool {
		m := map[ref.Hash]bool{}
		s, err := sim.RawSnapshot(book)
		if err != nil {
			return m
		}
		for i := range s.Live {
			m[s.Live[i].Hash] = true
		}
		return m
	}
	for ri, r := range c.Rounds {
		roundStart := time.Now()
		parent, err := craft(0, anchor, anchor)
		if err != nil {
			return "", "", stt, err.Error()
		}
		var kids []*accountant.Vertex
		prev := parent.Hash
		for i := 0; i < r.N; i++ {
			var k *accountant.Vertex
			if r.Shape == "fan" {
				k, err = craft(1, parent.Hash, parent.Hash)
			} else {
				k, err = craft(1, prev, prev)
			}
			if err != nil {
				return "", "", stt, err.Error()
			}
			prev = k.Hash
			kids = append(kids, k)
		}
		order := make([]*accountant.Vertex, len(kids))
		for i := range kids {
			switch r.Shape {
			case "rchain":
				order[i] = kids[len(kids)-1-i]
			case "fan":
				order[i] = kids[(i+r.Rot)%len(kids)]
			default:
				order[i] = kids[i]
			}
		}
		myRetry := map[ref.Hash]int{}
		for _, k := range order {
			cp := sim.CloneVertex(k)
			aerr := book.AddLeaf(bg, &cp)
			if !errors.Is(aerr, accountant.ErrParentDoesNotExists) {
				if errors.Is(aerr, accountant.ErrLeafRejected) {
					return "orphan-not-parked", fmt.Sprintf("round %d (%s of %d, node has done %d retries so far, %d parked now): a child delivered before its parent was refused (%v) instead of being parked", ri, r.Shape, r.N, stt.pops, len(sim.ParkedList(book)), aerr), stt, ""
				}
				return "missing-parent-not-reported", fmt.Sprintf("round %d: child delivered before its parent returned %v", ri, aerr), stt, ""
			}
		}
		if n := len(sim.ParkedList(book)); n > stt.maxParked {
			stt.maxParked = n
		}
		pop := func() error {
			pl := sim.ParkedList(book)
			if len(pl) == 0 {
				return nil
			}
			myRetry[pl[0].Hash]++
			stt.pops++
			return sim.GuardT(sim.CallTimeout, func() error { book.VerifRetryOne(bg); return nil })
		}
		for p := 0; p < r.Passes; p++ {
			for i := 0; i < r.N; i++ {
				if g := pop(); g != nil {
					return "", "", stt, "retry: " + g.Error()
				}
			}
		}
		cp := sim.CloneVertex(parent)
		if aerr := book.AddLeaf(bg, &cp); aerr != nil {
			return "valid-vertex-rejected", fmt.Sprintf("round %d: the withheld parent (its own parents present) was rejected: %v", ri, aerr), stt, ""
		}
		// drain: full passes over whatever is parked until nothing is. The node's own ticker may pop a vertex in between
		// and so rotate the queue, which costs an extra pass; a reverse chain needs one pass per vertex.
		maxPasses := 6
		if r.Shape == "rchain" {
			maxPasses = r.N + 3
		}
		for pass := 0; pass < maxPasses; pass++ {
			n := len(sim.ParkedList(book))
			if n == 0 {
				break
			}
			for i := 0; i < n; i++ {
				if g := pop(); g != nil {
					return "", "", stt, "retry: " + g.Error()
				}
			}
		}
		have := live()
		ticks := int(time.Since(roundStart)/(2*time.Second)) + 1
		for _, k := range kids {
			if have[k.Hash] {
				stt.admitted++
				continue
			}
			if myRetry[k.Hash]+ticks+2 >= 25 {
				return "", "", stt, fmt.Sprintf("round %d: vertex may have used up its retries (%d by the harness, up to %d by the ticker)", ri, myRetry[k.Hash], ticks)
			}
			stillParked := false
			for _, p := range sim.ParkedList(book) {
				if p.Hash == k.Hash {
					stillParked = true
				}
			}
			if stillParked {
				return "buffer-not-drained", fmt.Sprintf("round %d (%s of %d children, %d passes): child %x is still parked after its parent arrived and %d further full passes (%d retries of its own)", ri, r.Shape, r.N, r.Passes, k.Hash[:4], maxPasses, myRetry[k.Hash]), stt, ""
			}
			return "vertex-lost", fmt.Sprintf("round %d (%s of %d children, %d passes; the node had done %d retries over its lifetime, at most %d parked at once): child %x was parked, its parent arrived, and after %d retries of its own it is neither in the ledger nor parked", ri, r.Shape, r.N, r.Passes, stt.pops, stt.maxParked, k.Hash[:4], myRetry[k.Hash]), stt, ""
		}
		if n := len(sim.ParkedList(book)); n > 0 {
			return "buffer-not-drained", fmt.Sprintf("round %d: %d vertices still parked although every parent is present", ri, n), stt, ""
		}
		anchor = kids[len(kids)-1].Hash
	}
	_ = started
	// same ledger as parents-first delivery: the reference node holds exactly these vertices
	refSnap, err := w.Snapshot(w.Nodes[1])
	if err != nil {
		return "", "", stt, "snapshot: " + err.Error()
	}
	have := live()
	for h := range refSnap.Live {
		if !have[h] {
			return "vertex-lost", fmt.Sprintf("vertex %x of the reference ledger is missing at the target", h[:4]), stt, ""
		}
	}
	if len(have) != len(refSnap.Live) {
		return "admitted-twice", fmt.Sprintf("target holds %d vertices, parents-first reference %d", len(have), len(refSnap.Live)), stt, ""
	}
	if tgt.Log.FatalCount() > 0 {
		return "log-fatal", fmt.Sprintf("target logged Fatal: %v", tgt.Log.Fatals), stt, ""
	}
	return "", "", stt, ""
}
