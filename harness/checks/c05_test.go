package checks

import (
	"fmt"
	"math/big"
	"testing"

	"github.com/bartossh/Computantis/src/accountant"
	"github.com/bartossh/Computantis/src/gossip"
	"github.com/bartossh/Computantis/src/protobufcompiled"
	"github.com/bartossh/Computantis/src/spice"
	"pgregory.net/rapid"

	"verif/harness/ref"
	"verif/harness/sim"
)

// C05 — spice arithmetic is exact, atomic and canonical.
// Oracle: V(x) = cur*10^18 + supp in math/big.

const e18 = uint64(1_000_000_000_000_000_000)

var (
	bigE18  = new(big.Int).SetUint64(e18)
	bigMaxV = func() *big.Int {
		v := new(big.Int).SetUint64(^uint64(0))
		v.Mul(v, bigE18)
		v.Add(v, new(big.Int).SetUint64(e18-1))
		return v
	}()
)

func bigV(m spice.Melange) *big.Int {
	v := new(big.Int).SetUint64(m.Currency)
	v.Mul(v, bigE18)
	v.Add(v, new(big.Int).SetUint64(m.SupplementaryCurrency))
	return v
}

func canon(m spice.Melange) bool { return m.SupplementaryCurrency < e18 }

type melJSON struct {
	C uint64 `json:"c,string"`
	S uint64 `json:"s,string"`
}

func mj(m spice.Melange) melJSON { return melJSON{m.Currency, m.SupplementaryCurrency} }
func (m melJSON) mel() spice.Melange {
	return spice.Melange{Currency: m.C, SupplementaryCurrency: m.S}
}

type c05Case struct {
	Op     string  `json:"op"` // supply | transfer | drain
	Amount melJSON `json:"amount"`
	From   melJSON `json:"from"`
	To     melJSON `json:"to"`
}

var c05Cur = []uint64{
	0, 1, 2, e18 - 1, e18, e18 + 1, 1<<63 - 1, 1 << 63, 1<<63 + 1,
	^uint64(0) - e18 - 1, ^uint64(0) - e18, ^uint64(0) - e18 + 1, ^uint64(0) - 1, ^uint64(0),
}

var c05Supp = []uint64{
	0, 1, 2, e18 / 2, e18 - 2, e18 - 1, e18, e18 + 1, 2*e18 - 1, 2 * e18,
	1 << 63, ^uint64(0) - e18 + 1, ^uint64(0) - 1, ^uint64(0),
}

// quick tier uses a reduced product.
var c05CurQ = []uint64{0, 1, e18 - 1, e18, 1 << 63, ^uint64(0) - e18, ^uint64(0) - 1, ^uint64(0)}
var c05SuppQ = []uint64{0, 1, e18 / 2, e18 - 1, e18, e18 + 1, ^uint64(0) - e18 + 1, ^uint64(0)}

// c05Judge runs the case against the real code and returns ("", trivial) or a violation signature and message.
func c05Judge(c c05Case) (sig, msg string, nontrivial bool) {
	amount, from, to := c.Amount.mel(), c.From.mel(), c.To.mel()
	allCanon := canon(amount) && canon(to) && (c.Op == "supply" || canon(from))

	var err error
	var panicked any
	from2, to2 := from, to
	func() {
		defer func() { panicked = recover() }()
		switch c.Op {
		case "supply":
			err = to2.Supply(amount)
		case "transfer":
			err = spice.Transfer(amount, &from2, &to2)
		case "drain":
			err = from2.Drain(amount, &to2)
		}
	}()
	if panicked != nil {
		return "panic", fmt.Sprintf("%s panicked: %v", c.Op, panicked), true
	}

	va, vf, vt := bigV(amount), bigV(from), bigV(to)
	sum := new(big.Int).Add(vt, va)
	overflow := sum.Cmp(bigMaxV) > 0
	insufficient := c.Op != "supply" && vf.Cmp(va) < 0

	carry := canon(amount) && canon(to) && amount.SupplementaryCurrency+to.SupplementaryCurrency >= e18
	borrow := c.Op != "supply" && canon(amount) && canon(from) && amount.SupplementaryCurrency > from.SupplementaryCurrency
	nontrivial = carry || borrow || overflow || insufficient || !allCanon

	if err != nil {
		if from2 != from || to2 != to {
			return "fail-not-atomic", fmt.Sprintf("%s returned error %q but operands changed: from %v->%v to %v->%v", c.Op, err, from, from2, to, to2), nontrivial
		}
		if !(overflow || insufficient || !allCanon) {
			return "spurious-failure", fmt.Sprintf("%s returned error %q although funds suffice and result is representable", c.Op, err), nontrivial
		}
		return "", "", nontrivial
	}
	// success
	if !allCanon {
		// the statement: success leaves both sides canonical and moves exactly the amount.
		if !canon(to2) || (c.Op != "supply" && !canon(from2)) {
			return "noncanonical-operand-accepted", fmt.Sprintf("%s succeeded on a non-canonical operand and left a non-canonical side: amount %v from %v->%v to %v->%v", c.Op, amount, from, from2, to, to2), nontrivial
		}
	}
	if overflow {
		return "overflow-accepted", fmt.Sprintf("%s succeeded although to %+v + amount %+v is not representable; result %+v (value destroyed by wrap-around)", c.Op, c.To, c.Amount, mj(to2)), nontrivial
	}
	if insufficient {
		return "insufficient-accepted", fmt.Sprintf("%s succeeded although from %v < amount %v", c.Op, from, amount), nontrivial
	}
	if bigV(to2).Cmp(sum) != 0 {
		return "inexact", fmt.Sprintf("%s: to %v + %v gave %v", c.Op, to, amount, to2), nontrivial
	}
	if c.Op != "supply" {
		if bigV(from2).Cmp(new(big.Int).Sub(vf, va)) != 0 {
			return "inexact", fmt.Sprintf("%s: from %v - %v gave %v", c.Op, from, amount, from2), nontrivial
		}
		if !canon(from2) {
			return "noncanonical-result", fmt.Sprintf("%s left from non-canonical: %v", c.Op, from2), nontrivial
		}
	} else if from2 != from {
		return "inexact", "supply touched an unrelated value", nontrivial
	}
	if !canon(to2) {
		return "noncanonical-result", fmt.Sprintf("%s left to non-canonical: %v", c.Op, to2), nontrivial
	}
	return "", "", nontrivial
}

func c05Check(t testing.TB, st *stats, c c05Case, enumerated bool) bool {
	sig, msg, nt := c05Judge(c)
	if sig != "" && sig != "panic" {
		if a, f, to := c.Amount.mel(), c.From.mel(), c.To.mel(); !(canon(a) && canon(to) && (c.Op == "supply" || canon(f))) {
			// one root cause: operands that are not canonical are not refused
			msg = "non-canonical operand not refused (" + sig + "): " + msg
			sig = "noncanonical-operand-accepted"
		}
	}
	st.eval(1)
	if nt {
		if enumerated {
			st.enumNontrivial(1)
		} else {
			st.nontrivial(fp64(c.Op, c.Amount, c.From, c.To))
		}
	}
	if sig != "" {
		if enumerated {
			return !st.reportOnce(sig, msg, c)
		}
		return !st.report(sig, msg, c)
	}
	return true
}

func TestC05(t *testing.T) {
	st := newStats(t, "C05", "cases = (op, amount, from, to) 64-bit pairs: full product of boundary values per component (partitioned over shards) plus rapid triples biased to carry/borrow/overflow edges; non-trivial = a carry, borrow, overflow, insufficient-funds outcome or non-canonical operand occurs; enumerated tuples are distinct by construction, random ones by fingerprint")
	curs, supps := c05CurQ, c05SuppQ
	if thorough() {
		curs, supps = c05Cur, c05Supp
	}
	sh, n := shard(), nshards()
	t.Run("enum", func(t *testing.T) {
		idx := 0
		failed := false
		// Supply: product over (to, amount)
		for _, tc := range curs {
			for _, ts := range supps {
				for _, ac := range curs {
					for _, as := range supps {
						idx++
						if idx%n != sh {
							continue
						}
						c := c05Case{Op: "supply", Amount: melJSON{ac, as}, To: melJSON{tc, ts}}
						if !c05Check(t, st, c, true) {
							failed = true
						}
					}
				}
			}
		}
		// Transfer: product over (amount, from, to)
		for _, fc := range curs {
			for _, fs := range supps {
				for _, tc := range curs {
					for _, ts := range supps {
						for _, ac := range curs {
							for _, as := range supps {
								idx++
								if idx%n != sh {
									continue
								}
								op := "transfer"
								if idx%7 == 0 {
									op = "drain"
								}
								c := c05Case{Op: op, Amount: melJSON{ac, as}, From: melJSON{fc, fs}, To: melJSON{tc, ts}}
								if !c05Check(t, st, c, true) {
									failed = true
								}
							}
						}
					}
				}
			}
		}
		st.Exhaustive = true
		st.sample(c05Case{Op: "transfer", Amount: melJSON{0, e18 - 5}, From: melJSON{3, 1}, To: melJSON{^uint64(0), 5}})
		if failed {
			t.Errorf("C05: violations found in the boundary product")
		}
	})

	t.Run("ledger", func(t *testing.T) {
		c05LedgerStats = st
		TestC05Ledger(t)
	})

	// Random part.
	t.Run("random", func(t *testing.T) {
		cur := rapid.OneOf(
			rapid.Uint64(),
			rapid.Uint64Range(0, 4),
			rapid.Uint64Range(^uint64(0)-4, ^uint64(0)),
			rapid.SampledFrom(c05Cur),
		)
		suppCanon := rapid.OneOf(
			rapid.Uint64Range(0, e18-1),
			rapid.Uint64Range(0, 3),
			rapid.Uint64Range(e18-4, e18-1),
		)
		suppAny := rapid.OneOf(suppCanon, suppCanon, suppCanon, rapid.Uint64(), rapid.SampledFrom(c05Supp))
		rapid.Check(t, func(rt *rapid.T) {
			if pastSoftDeadline(st) {
				return
			}
			op := rapid.SampledFrom([]string{"supply", "transfer", "drain"}).Draw(rt, "op")
			canonOnly := rapid.Bool().Draw(rt, "canonOnly")
			sg := suppAny
			if canonOnly {
				sg = suppCanon
			}
			c := c05Case{Op: op}
			c.To = melJSON{cur.Draw(rt, "toC"), sg.Draw(rt, "toS")}
			c.From = melJSON{cur.Draw(rt, "fromC"), sg.Draw(rt, "fromS")}
			// amount: biased so that supp sums land around 10^18 and currencies around 2^64
			switch rapid.IntRange(0, 4).Draw(rt, "amountMode") {
			case 0:
				c.Amount = melJSON{cur.Draw(rt, "aC"), sg.Draw(rt, "aS")}
			case 1: // carry edge on to
				d := rapid.Uint64Range(0, 4).Draw(rt, "d")
				c.Amount = melJSON{cur.Draw(rt, "aC"), e18 - (c.To.S % e18) - 2 + d}
			case 2: // borrow edge on from
				d := rapid.Uint64Range(0, 4).Draw(rt, "d")
				c.Amount = melJSON{rapid.Uint64Range(0, c.From.C).Draw(rt, "aC"), (c.From.S%e18 + d) % (e18 + 2)}
			case 3: // currency overflow edge on to
				d := rapid.Uint64Range(0, 4).Draw(rt, "d")
				c.Amount = melJSON{^uint64(0) - c.To.C - 2 + d, sg.Draw(rt, "aS")}
			case 4: // exactly from
				c.Amount = c.From
			}
			if canonOnly && !canon(c.Amount.mel()) {
				c.Amount.S %= e18
			}
			if op == "supply" {
				c.From = melJSON{}
			}
			rt.Logf("case %+v", c)
			if !c05Check(t, st, c, false) {
				rt.Fatalf("C05 violated: %+v", c)
			}
			st.sample(c)
		})
	})
}

// c05Ledger: an amount that is not canonical is never accepted into the ledger (CreateLeaf, AddLeaf, notary Propose,
// gossip handler, sync), and the snapshot stays unchanged.
type c05LedgerCase struct {
	Via  string `json:"via"`
	C    uint64 `json:"c,string"`
	S    uint64 `json:"s,string"`
	Data int    `json:"data"`
}

func c05LedgerJudge(c c05LedgerCase, seed string) (sig, msg string, inconclusive string) {
	s, err := newSvc(seed, 3, 3, false, 60)
	if err != nil {
		if s != nil {
			s.close()
		}
		return "", "", "setup: " + err.Error()
	}
	defer s.close()
	w := s.w
	amt := spice.Melange{Currency: c.C, SupplementaryCurrency: c.S}
	before, err := w.Snapshot(w.Nodes[0])
	if err != nil {
		return "", "", err.Error()
	}
	tx := w.MakeTx(1, 2, amt, c.Data)
	tips := ref.SortedHashes(before.Tips())
	var opErr error
	var pn any
	func() {
		defer func() { pn = recover() }()
		switch c.Via {
		case "CreateLeaf":
			_, opErr = s.book.CreateLeaf(bg, &tx)
		case "AddLeaf":
			v := w.Craft(w.RogueWallet(0), tx, tips[0], tips[0], 0)
			cp := sim.CloneVertex(v)
			opErr = s.book.AddLeaf(bg, &cp)
		case "notary.Propose":
			_, opErr = s.notary.Propose(bg, protoTx(&tx))
		case "gossip.GossipVrx":
			v := w.Craft(w.RogueWallet(0), tx, tips[0], tips[0], 0)
			_, opErr = s.gossip.Server().GossipVrx(bg, &protobufcompiled.VrxMsgGossip{Vertex: gossip.VerifVertexToProto(v)})
		case "LoadDag":
			n, err := w.NewDetachedNode("c05-load")
			if err != nil {
				opErr = nil
				return
			}
			v := w.Craft(w.RogueWallet(0), tx, w.Genesis.Hash, w.Genesis.Hash, 0)
			ch := make(chan *accountant.Vertex, 3)
			g := w.Genesis
			ch <- &g
			ch <- v
			close(ch)
			var cause error
			n.Book.LoadDag(func(e error) { cause = e }, ch)
			if n.Book.DagLoaded() {
				opErr = nil
			} else {
				opErr = fmt.Errorf("not loaded: %v", cause)
			}
		}
	}()
	if pn != nil {
		return "panic:" + c.Via, fmt.Sprintf("%s with amount (%d,%d) panicked: %v", c.Via, c.C, c.S, pn), ""
	}
	if opErr == nil && c.Via == "notary.Propose" && c.Data > 0 {
		// a contract is only held as awaiting by Propose; the ledger is what must stay clean
		after, err := w.Snapshot(w.Nodes[0])
		if err == nil && after.Digest(true) == before.Digest(true) {
			return "", "", ""
		}
	}
	if opErr == nil {
		return "noncanonical-amount-admitted:" + c.Via, fmt.Sprintf("%s accepted a transaction whose amount (currency %d, supplementary %d >= 10^18) is not canonical", c.Via, c.C, c.S), ""
	}
	after, err := w.Snapshot(w.Nodes[0])
	if err != nil {
		return "", "", err.Error()
	}
	if after.Digest(true) != before.Digest(true) {
		return "refused-but-ledger-changed:" + c.Via, fmt.Sprintf("%s refused amount (%d,%d) but the ledger changed", c.Via, c.C, c.S), ""
	}
	return "", "", ""
}

func TestC05Ledger(t *testing.T) {
	st := c05LedgerStats
	if st == nil {
		st = newStats(t, "C05", "ledger clause")
	}
	sim.Chdir(workDir(t))
	sh, n := shard(), nshards()
	idx := 0
	failed := false
	for _, via := range []string{"CreateLeaf", "AddLeaf", "notary.Propose", "gossip.GossipVrx", "LoadDag"} {
		for _, cur := range []uint64{0, 1, ^uint64(0)} {
			for _, supp := range []uint64{e18, e18 + 1, 2 * e18, 1 << 63, ^uint64(0)} {
				for _, data := range []int{0, 8} {
					idx++
					if idx%n != sh {
						continue
					}
					c := c05LedgerCase{Via: via, C: cur, S: supp, Data: data}
					sig, msg, inc := c05LedgerJudge(c, fmt.Sprintf("c05l-%d", idx))
					if inc != "" {
						st.note("inconclusive ledger case: %s", inc)
						continue
					}
					st.eval(1)
					st.enumNontrivial(1)
					st.label("ledger-ingress:" + via)
					if sig != "" && st.reportOnce(sig, msg, map[string]any{"ledger": c}) {
						failed = true
					}
				}
			}
		}
	}
	if failed {
		t.Errorf("C05: non-canonical amounts reach the ledger")
	}
}

var c05LedgerStats *stats

func TestReplayC05(t *testing.T) {
	var raw map[string]any
	loadReplay(t, &raw)
	if _, ok := raw["ledger"]; ok {
		var w struct {
			Ledger c05LedgerCase `json:"ledger"`
		}
		loadReplay(t, &w)
		sim.Chdir(t.TempDir())
		if sig, msg, _ := c05LedgerJudge(w.Ledger, "c05l-replay"); sig != "" {
			t.Fatalf("VIOLATION reproduced sig=%s: %s", sig, msg)
		}
		return
	}
	replayC05Pure(t)
}

func replayC05Pure(t *testing.T) {
	var c c05Case
	loadReplay(t, &c)
	sig, msg, _ := c05Judge(c)
	if sig != "" {
		t.Fatalf("VIOLATION reproduced sig=%s: %s", sig, msg)
	}
}
