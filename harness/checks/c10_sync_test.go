package checks

import (
	"fmt"
	"os"
	"sync"
	"time"

	"github.com/bartossh/Computantis/src/accountant"
	"github.com/bartossh/Computantis/src/spice"
	"github.com/bartossh/Computantis/src/transaction"

	"verif/harness/ref"
	"verif/harness/sim"
)

// C10, "ledgers obtained by syncing from a peer": the stream a joining node loads is a peer's honest ledger plus ONE
// rule-breaking vertex - self-sealed by a stranger, self-sealed by the very wallet that sealed genesis, self-sealed by
// the joining node's own wallet, issued by the genesis wallet but sealed by a stranger, or carrying neither data nor
// spice - put on the tip or in the middle. Whatever LoadDag answers, the ledger the joining node ends up with must
// not contain such a vertex.
func c10Sync(st *stats) (failed bool) {
	w, err := sim.NewWorld(sim.Config{Nodes: 1, Users: 3, GenesisC: 100000, Seed: fmt.Sprintf("c10-sync-%d", shard())})
	if err != nil {
		st.note("c10 sync world: %v", err)
		return false
	}
	defer w.Close()
	worldsMade++
	for i := 0; i < 9; i++ {
		amt := spice.Melange{}
		data := 0
		if i%3 == 2 {
			data = 7
		} else {
			amt = spice.New(uint64(3+i), 0)
		}
		from := 0
		if i > 4 {
			from = 1 + i%2
		}
		w.ProposeTx(0, w.MakeTx(from, 1+(i+1)%3, amt, data))
	}
	stream, err := c14Collect(w.Nodes[0].Book)
	if err != nil || len(stream) < 4 {
		st.note("c10 sync stream: %v (%d)", err, len(stream))
		return false
	}
	snap, err := w.Snapshot(w.Nodes[0])
	if err != nil {
		return false
	}
	tips := ref.SortedHashes(snap.Tips())
	genesisWallet := w.Wallets[w.NodeWallet(0)]
	rogue := w.Wallets[w.RogueWallet(0)]
	idx := 0
	for _, kind := range []string{"self-sealed-by-stranger", "self-sealed-by-genesis-wallet", "self-sealed-by-joining-node", "genesis-wallet-issuer", "empty"} {
		for _, payload := range []string{"spice", "data", "both"} {
			for _, place := range []string{"tip", "middle"} {
				idx++
				if idx%nshards() != shard() {
					continue
				}
				name := fmt.Sprintf("c10-joiner-%d", idx)
				joinKey := ref.NewKey(name, []byte(w.Cfg.Seed+"/"+name))
				var issuer, sealer *ref.Key
				switch kind {
				case "self-sealed-by-stranger":
					issuer, sealer = rogue, rogue
				case "self-sealed-by-genesis-wallet":
					issuer, sealer = genesisWallet, genesisWallet
				case "self-sealed-by-joining-node":
					issuer, sealer = joinKey, joinKey
				case "genesis-wallet-issuer":
					issuer, sealer = genesisWallet, rogue
				case "empty":
					issuer, sealer = w.Wallets[1], rogue
				}
				amt, data := spice.New(1, 0), []byte(nil)
				switch payload {
				case "data":
					amt, data = spice.Melange{}, []byte("contract payload")
				case "both":
					data = []byte("memo")
				}
				if kind == "empty" {
					amt, data = spice.Melange{}, nil
				}
				parent := w.Arch.V[tips[0]]
				if place == "middle" {
					parent = stream[len(stream)/2]
				}
				var tx transaction.Transaction = ref.MakeTx("c10 sync", amt, data, w.Wallets[2].Addr, issuer, parent.CreatedAt.Add(time.Second))
				bad := ref.Seal(tx, parent.Hash, parent.Hash, parent.Weight+1, parent.CreatedAt.Add(2*time.Second), sealer)
				s2 := append(append([]*accountant.Vertex{}, stream...), &bad)
				lm := &lm{w: w}
				tgt, cause, inc := c14Load(lm, s2, false, name)
				if inc != "" {
					st.note("c10 sync: %s", inc)
					st.label("inconclusive-case")
					continue
				}
				if os.Getenv("VERIF_DEBUG") != "" {
					fmt.Printf("DEBUG %s/%s/%s parent=%x badhash=%x loaded=%v cause=%v\n", kind, payload, place, parent.Hash[:4], bad.Hash[:4], tgt.Book.DagLoaded(), cause)
				}
				st.eval(1)
				st.label("sync:" + kind + "/" + payload + "/" + place)
				st.enumNontrivial(1)
				if !tgt.Book.DagLoaded() {
					// refused: the joining node is not in service (every ledger operation answers "DAG is not loaded"),
					// what the aborted load left in its graph is not a ledger
					st.label("sync:stream-refused")
					continue
				}
				raw, err := sim.RawSnapshot(tgt.Book)
				if err != nil {
					continue
				}
				for i := range raw.Live {
					v := &raw.Live[i]
					if v.Hash == w.Genesis.Hash {
						continue
					}
					why := ""
					switch {
					case v.Transaction.IssuerAddress == v.SignerPublicAddress:
						why = "is sealed by its own issuer"
					case v.Transaction.IssuerAddress == genesisWallet.Addr:
						why = "is issued by the genesis wallet"
					case !ref.IsSpice(v) && len(v.Transaction.Data) == 0:
						why = "carries neither data nor spice"
					}
					if why != "" {
						if st.reportOnce("synced-ledger-holds:"+kind, fmt.Sprintf("a joining node loaded a stream holding one %s vertex (%s, on the %s) and its ledger now contains vertex %x which %s (loaded=%v cause=%v)", kind, payload, place, v.Hash[:4], why, tgt.Book.DagLoaded(), cause), map[string]string{"kind": kind, "payload": payload, "place": place}) {
							failed = true
						}
					}
				}
				st.label("sync:rule-breaking-stream-marked-loaded")
			}
		}
	}
	// requests arriving WHILE the joining node is still reading the stream: whatever they are answered, no
	// rule-breaking vertex may be in the ledger once the node is in service
	{
		name := fmt.Sprintf("c10-joiner-midsync-%d", shard())
		joinKey := ref.NewKey(name, []byte(w.Cfg.Seed+"/"+name))
		tgt, err := w.NewDetachedNode(name)
		if err == nil {
			ch := make(chan *accountant.Vertex)
			loadDone := make(chan struct{})
			var cause error
			go func() {
				defer close(loadDone)
				tgt.Book.LoadDag(func(e error) { cause = e }, ch)
			}()
			feed := func(vs []*accountant.Vertex) bool {
				for _, v := range vs {
					c := sim.CloneVertex(v)
					select {
					case ch <- &c:
					case <-loadDone:
						return false
					case <-time.After(sim.CallTimeout):
						return false
					}
				}
				return true
			}
			half := len(stream) / 2
			ok := feed(stream[:half])
			tipV := w.Arch.V[tips[0]]
			mkTx := func(issuer *ref.Key, note string) transaction.Transaction {
				return ref.MakeTx("c10 midsync "+note, spice.New(1, 0), []byte("x"), w.Wallets[2].Addr, issuer, tipV.CreatedAt.Add(3*time.Second))
			}
			var reqs sync.WaitGroup
			results := make([]string, 4)
			issue := func(i int, f func() error) {
				reqs.Add(1)
				go func() {
					defer reqs.Done()
					defer func() { recover() }()
					if e := f(); e != nil {
						results[i] = e.Error()
					} else {
						results[i] = "accepted"
					}
				}()
			}
			if ok {
				t1 := mkTx(genesisWallet, "propose-genesis-issuer")
				issue(0, func() error { _, e := tgt.Book.CreateLeaf(bg, &t1); return e })
				t2 := mkTx(genesisWallet, "gossip-genesis-issuer")
				v2 := ref.Seal(t2, tipV.Hash, tipV.Hash, tipV.Weight+1, tipV.CreatedAt.Add(4*time.Second), rogue)
				issue(1, func() error { return tgt.Book.AddLeaf(bg, &v2) })
				t3 := mkTx(rogue, "gossip-self-sealed")
				v3 := ref.Seal(t3, tipV.Hash, tipV.Hash, tipV.Weight+1, tipV.CreatedAt.Add(5*time.Second), rogue)
				issue(2, func() error { return tgt.Book.AddLeaf(bg, &v3) })
				t4 := mkTx(joinKey, "propose-own-wallet")
				issue(3, func() error { _, e := tgt.Book.CreateLeaf(bg, &t4); return e })
				time.Sleep(time.Duration(5+shard()%4*10) * time.Millisecond)
				feed(stream[half:])
			}
			close(ch)
			select {
			case <-loadDone:
			case <-time.After(sim.CallTimeout):
			}
			waited := make(chan struct{})
			go func() { reqs.Wait(); close(waited) }()
			select {
			case <-waited:
			case <-time.After(sim.CallTimeout):
				st.label("sync:mid-sync-requests-still-pending(inconclusive)")
			}
			st.eval(1)
			st.enumNontrivial(1)
			st.label("sync:requests-while-the-stream-is-being-read")
			for _, r := range results {
				if r == "accepted" {
					st.label("sync:mid-sync-request-accepted")
				}
			}
			if tgt.Book.DagLoaded() {
				if raw, err := sim.RawSnapshot(tgt.Book); err == nil {
					for i := range raw.Live {
						v := &raw.Live[i]
						if v.Hash == w.Genesis.Hash {
							continue
						}
						why := ""
						switch {
						case v.Transaction.IssuerAddress == v.SignerPublicAddress:
							why = "is sealed by its own issuer"
						case v.Transaction.IssuerAddress == genesisWallet.Addr:
							why = "is issued by the genesis wallet"
						}
						if why != "" {
							if st.reportOnce("mid-sync-request-sealed-rule-breaking-vertex", fmt.Sprintf("requests sent while the joining node was still reading its peer's stream (answers: %v; load cause %v): afterwards its ledger contains vertex %x (%q) which %s", results, cause, v.Hash[:4], v.Transaction.Subject, why), map[string]string{"kind": "mid-sync"}) {
								failed = true
							}
						}
					}
				}
			}
		}
	}
	return failed
}
