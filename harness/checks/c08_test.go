package checks

import (
	"context"
	"errors"
	"fmt"
	"strings"
	"sync"
	"sync/atomic"
	"testing"
	"time"

	"github.com/bartossh/Computantis/src/accountant"
	"github.com/bartossh/Computantis/src/spice"
	"pgregory.net/rapid"

	"verif/harness/ref"
	"verif/harness/sim"
)

// C08 — ledger operations never wedge the node.

// countCtx is a context whose Done channel closes on the (k+1)-th poll: "cancelled after k visited ancestors".
type countCtx struct {
	context.Context
	k     int64
	polls atomic.Int64
	ch    chan struct{}
	once  sync.Once
}

func newCountCtx(k int) *countCtx {
	return &countCtx{Context: context.Background(), k: int64(k), ch: make(chan struct{})}
}
func (c *countCtx) Done() <-chan struct{} {
	if c.polls.Add(1) > c.k {
		c.once.Do(func() { close(c.ch) })
	}
	return c.ch
}
func (c *countCtx) Err() error {
	select {
	case <-c.ch:
		return context.Canceled
	default:
		return nil
	}
}
func (c *countCtx) triggered() bool { return c.Err() != nil }

type c08Case struct {
	Op    string `json:"op"`    // createleaf|addleaf|balance|history|stream|truncate|overflow|streamwriter
	Shape string `json:"shape"` // chain|wide
	N     int    `json:"n"`     // vertices on top of genesis
	K     int    `json:"k"`     // cancel after k polls (-1: never)
	J     int    `json:"j"`     // streamwriter: consumer pauses after j items
	WOp   string `json:"wop"`   // streamwriter: createleaf|addleaf
}

// c08Build creates a one-node world with N spice-transfer vertices on top of genesis.
func c08Build(c c08Case) (*sim.World, error) {
	gc := uint64(1_000_000)
	if c.Op == "overflow" {
		gc = ^uint64(0) - 1
	}
	w, err := sim.NewWorld(sim.Config{Nodes: 1, Users: 3, GenesisC: gc, Seed: fmt.Sprintf("c08-%s-%s-%d", c.Op, c.Shape, c.N)})
	if err != nil {
		return nil, err
	}
	rogue := w.RogueWallet(0)
	branchTip := map[int]ref.Hash{}
	for i := 0; i < c.N; i++ {
		if c.Shape == "forked" && i >= 1 {
			// 2-3 branches growing from the first vertex, extended in turn: several tips persist, each with private
			// ancestors and a shared trunk
			b := 2 + c.N%2
			tip, ok := branchTip[i%b]
			if !ok {
				tip = w.Arch.Order[1]
			}
			tx := w.MakeTx(0, 1+i%3, spice.New(1, 0), 0)
			v := w.Craft(rogue, tx, tip, tip, 0)
			if res := w.DeliverVertex(0, v); res.Err != nil {
				return w, fmt.Errorf("build forked %d: %w", i, res.Err)
			}
			branchTip[i%b] = v.Hash
			continue
		}
		if c.Shape == "wide" && i >= 2 {
			// rogue-sealed transfer on two different known vertices: several tips, two-parent joins
			ord := w.Arch.Order
			l, r := ord[len(ord)-1], ord[len(ord)-1-(1+i%3)%len(ord)]
			tx := w.MakeTx(0, 1+i%3, spice.New(1, 0), 0)
			v := w.Craft(rogue, tx, l, r, 0)
			if res := w.DeliverVertex(0, v); res.Err != nil {
				return w, fmt.Errorf("build wide %d: %w", i, res.Err)
			}
			continue
		}
		res := w.ProposeTx(0, w.MakeTx(0, 1+i%3, spice.New(1, 0), 0))
		if res.Err != nil {
			return w, fmt.Errorf("build chain %d: %w", i, res.Err)
		}
	}
	return w, nil
}

func blockedOnGraphLock() bool {
	for _, g := range sim.Goroutines() {
		if strings.Contains(g.Stack, "RWMutex).Lock") && strings.Contains(g.Stack, "heimdalr/dag.(*DAG).") {
			return true
		}
		if strings.Contains(g.Stack, "RWMutex).Lock") && strings.Contains(g.Stack, "accountant.(*AccountingBook)") {
			return true
		}
	}
	return false
}

// c08Probe checks that the node still serves a writer and a reader.
func c08Probe(w *sim.World) error {
	return sim.GuardT(4*time.Second, func() error {
		tx := w.MakeTx(1, 2, spice.Melange{}, 4)
		if _, err := w.Nodes[0].Book.CreateLeaf(context.Background(), &tx); err != nil {
			return fmt.Errorf("probe CreateLeaf: %w", err)
		}
		if _, err := w.Nodes[0].Book.CalculateBalance(context.Background(), w.Wallets[1].Addr); err != nil {
			return fmt.Errorf("probe CalculateBalance: %w", err)
		}
		return nil
	})
}

// c08Run executes one case on a fresh world. inconclusive != "" means the run decided nothing.
var c08Worlds int // one-node worlds of this file (counted apart from the ledger machine's budget)

func c08Run(c c08Case) (sig, msg string, nontrivial bool, inconclusive string) {
	c08Worlds++
	w, err := c08Build(c)
	if err != nil {
		if w != nil {
			w.Close()
		}
		return "", "", false, "build: " + err.Error()
	}
	wedged := false
	defer func() {
		if !wedged {
			w.Close()
		}
	}()
	book := w.Nodes[0].Book
	before := sim.SettledParkedWalkers()
	var ctx context.Context = context.Background()
	var cc *countCtx
	if c.K >= 0 {
		cc = newCountCtx(c.K)
		ctx = cc
	}
	ancN := c.N // the tip's ancestors: every earlier vertex incl. genesis (chain); fewer on wide graphs

	var opErr error
	switch c.Op {
	case "createleaf":
		tx := w.MakeTx(0, 1, spice.New(1, 0), 0)
		opErr = sim.GuardT(10*time.Second, func() error { _, e := book.CreateLeaf(ctx, &tx); return e })
	case "addleaf":
		tips := w.Arch.Order
		tx := w.MakeTx(0, 2, spice.New(1, 0), 0)
		tip := tips[len(tips)-1]
		v := w.Craft(w.RogueWallet(1), tx, tip, tip, 0)
		cp := sim.CloneVertex(v)
		opErr = sim.GuardT(10*time.Second, func() error { return book.AddLeaf(ctx, &cp) })
	case "balance":
		opErr = sim.GuardT(10*time.Second, func() error { _, e := book.CalculateBalance(ctx, w.Wallets[1].Addr); return e })
	case "history":
		opErr = sim.GuardT(10*time.Second, func() error {
			_, e := book.ReadDAGTransactionsByAddress(ctx, w.Wallets[1].Addr)
			return e
		})
	case "stream":
		opErr = sim.GuardT(10*time.Second, func() error {
			for range book.StreamDAG(ctx) {
			}
			return nil
		})
	case "truncate":
		opErr = sim.GuardT(30*time.Second, func() error { return book.VerifTruncate(ctx) })
	case "reads":
		// every read entry point, for a hash that is live, one that was checkpointed (J=1: after a real truncation) and
		// one that does not exist; what they return is other properties' business - here they must return, and the
		// probe afterwards (a writer, then a reader) must still complete
		if c.J == 1 {
			if g := sim.GuardT(30*time.Second, func() error { return book.VerifTruncate(context.Background()) }); g != nil {
				return "", "", false, "truncate before reads: " + g.Error()
			}
		}
		ord := w.Arch.Order
		var hashes []ref.Hash
		if len(ord) > 2 {
			hashes = append(hashes, ord[1], ord[len(ord)-1])
		}
		hashes = append(hashes, ref.Hash{0x42, 0x17})
		opErr = sim.GuardT(20*time.Second, func() error {
			for _, h := range hashes {
				if v := w.Arch.V[h]; v != nil {
					book.ReadTransactionByHash(ctx, v.Transaction.Hash)
				} else {
					book.ReadTransactionByHash(ctx, h)
				}
				book.ReadVertex(ctx, h)
			}
			book.ReadDAGTransactionsByAddress(ctx, w.Wallets[1].Addr)
			book.ReadDAGTransactionsByAddress(ctx, "no-such-address")
			book.CalculateBalance(ctx, w.Wallets[2].Addr)
			book.CalculateBalance(ctx, "no-such-address")
			return nil
		})
	case "overflow":
		// ping-pong of nearly the whole supply: the receiver's gross inflow exceeds 2^64, the funds walk
		// of the next validation exits early with an arithmetic error (no cancellation involved).
		amt := spice.New(^uint64(0)-1-uint64(c.N), 0)
		for i := 0; i < 3 && opErr == nil; i++ {
			from, to := 0, 1
			if i%2 == 1 {
				from, to = 1, 0
			}
			tx := w.MakeTx(from, to, amt, 0)
			opErr = sim.GuardT(10*time.Second, func() error { _, e := book.CreateLeaf(ctx, &tx); return e })
		}
		tx := w.MakeTx(1, 2, spice.Melange{}, 4)
		e2 := sim.GuardT(10*time.Second, func() error { _, e := book.CreateLeaf(ctx, &tx); return e })
		if opErr == nil {
			opErr = e2
		}
	}
	if sim.IsPanic(opErr) {
		wedged = true
		return "panic:" + c.Op, fmt.Sprintf("%s with cancellation after %d polls on a %s DAG of %d panicked: %v", c.Op, c.K, c.Shape, c.N, opErr), true, ""
	}
	early := opErr != nil && (cc == nil || cc.triggered())
	if cc != nil {
		nontrivial = cc.triggered() && c.K < ancN-1
	} else {
		nontrivial = opErr != nil || c.Op == "truncate" || c.Shape == "forked" || c.Op == "reads"
	}
	_ = early
	after := sim.SettledParkedWalkers()
	if errors.Is(opErr, sim.ErrStuck) {
		wedged = true
		if after > before || blockedOnGraphLock() {
			return "stuck:" + c.Op, fmt.Sprintf("%s (cancel after %d polls, %s DAG of %d) did not return; %d walker(s) parked in chan send holding the graph read lock", c.Op, c.K, c.Shape, c.N, after-before), true, ""
		}
		return "", "", nontrivial, fmt.Sprintf("%s did not return within the watchdog but no blocking pattern in the goroutine profile", c.Op)
	}
	if after > before {
		wedged = true
		perr := c08Probe(w)
		return "abandoned-walker:" + c.Op, fmt.Sprintf("%s returned (%v) after cancellation at poll %d on a %s DAG of %d, leaving %d graph walker(s) parked in chan send with the graph read lock held; next operations: %v", c.Op, opErr, c.K, c.Shape, c.N, after-before, perr), true, ""
	}
	if perr := c08Probe(w); perr != nil {
		if sim.IsPanic(perr) {
			wedged = true
			return "panic-after:" + c.Op, fmt.Sprintf("operation after %s panicked: %v", c.Op, perr), true, ""
		}
		if errors.Is(perr, sim.ErrStuck) {
			wedged = true
			if blockedOnGraphLock() {
				return "wedged-after:" + c.Op, fmt.Sprintf("after %s (cancel at %d, %s DAG of %d) returned %v, the next CreateLeaf/CalculateBalance never returns (goroutine blocked on the graph/ledger lock)", c.Op, c.K, c.Shape, c.N, opErr), true, ""
			}
			return "", "", nontrivial, "probe did not return but no blocking pattern found"
		}
		// an ordinary error from the probe is not a wedge
	}
	if c.Op == "truncate" && opErr != nil && c.K < 0 {
		// truncation of a deep enough DAG must succeed; on a shallow DAG an error is the documented outcome
		if c.N > 1100 {
			return "truncate-error", fmt.Sprintf("truncate on %d-vertex chain returned %v", c.N, opErr), true, ""
		}
	}
	return "", "", nontrivial, ""
}

// c08StreamWriter: slow consumer x writer.
func c08StreamWriter(c c08Case) (sig, msg string, nontrivial bool, inconclusive string) {
	w, err := c08Build(c)
	if err != nil {
		if w != nil {
			w.Close()
		}
		return "", "", false, "build: " + err.Error()
	}
	wedged := false
	defer func() {
		if !wedged {
			w.Close()
		}
	}()
	book := w.Nodes[0].Book
	ctx, cancel := context.WithCancel(context.Background())
	defer cancel()
	ch := book.StreamDAG(ctx)
	got := 0
	for got < c.J {
		if _, ok := <-ch; !ok {
			break
		}
		got++
	}
	// give the producer time to fill its buffer and park: wait until the stream goroutine is blocked in chan send
	for i := 0; i < 400; i++ {
		if sim.CountFrames("StreamDAG.func1") == 0 {
			break
		}
		blocked := false
		for _, g := range sim.Goroutines() {
			if strings.Contains(g.Stack, "StreamDAG.func1") && (g.State == "chan send" || g.State == "select") {
				blocked = true
			}
		}
		if blocked {
			break
		}
		time.Sleep(time.Millisecond)
	}
	streaming := sim.CountFrames("StreamDAG.func1") > 0
	nontrivial = streaming
	// writer arrives during the pause
	wdone := make(chan error, 1)
	go func() {
		wdone <- sim.GuardT(20*time.Second, func() error {
			switch c.WOp {
			case "addleaf":
				ord := w.Arch.Order
				tip := ord[len(ord)-1]
				v := w.Craft(w.RogueWallet(1), w.MakeTx(1, 2, spice.Melange{}, 4), tip, tip, 0)
				cp := sim.CloneVertex(v)
				return book.AddLeaf(context.Background(), &cp)
			default:
				tx := w.MakeTx(1, 2, spice.Melange{}, 4)
				_, e := book.CreateLeaf(context.Background(), &tx)
				return e
			}
		})
	}()
	// wait until the writer has finished or is blocked on a lock
	var werr error
	wfinished := false
	for i := 0; i < 2000 && !wfinished; i++ {
		select {
		case werr = <-wdone:
			wfinished = true
		default:
			if blockedOnGraphLock() {
				i = 2000
			}
			time.Sleep(time.Millisecond)
		}
	}
	// consumer resumes
	cdone := make(chan int, 1)
	go func() {
		n := 0
		for range ch {
			n++
		}
		cdone <- n
	}()
	select {
	case n := <-cdone:
		got += n
	case <-time.After(6 * time.Second):
		wk, sr, wr := sim.LockCycle()
		wedged = true
		if wk && sr && wr {
			return "stream-writer-deadlock", fmt.Sprintf("DAG of %d vertices streamed to a consumer that paused after %d items; a %s arriving during the pause deadlocks the node: walker parked in chan send (graph read lock held), stream goroutine waiting for the graph read lock in GetVertex, writer waiting for the graph write lock", c.N+1, c.J, c.WOp), true, ""
		}
		return "", "", nontrivial, fmt.Sprintf("stream consumer did not finish but lock cycle not found (walker=%v reader=%v writer=%v)", wk, sr, wr)
	}
	if !wfinished {
		select {
		case werr = <-wdone:
		case <-time.After(25 * time.Second):
			wedged = true
			return "", "", nontrivial, "writer did not finish"
		}
	}
	if sim.IsPanic(werr) {
		wedged = true
		return "panic:streamwriter", fmt.Sprintf("writer during stream panicked: %v", werr), true, ""
	}
	if errors.Is(werr, sim.ErrStuck) {
		wedged = true
		return "stuck:streamwriter", "writer started during a paused DAG stream never returned", true, ""
	}
	if got < c.N+1 {
		// the stream may legitimately omit the vertex added concurrently, but never the ones present before
		return "stream-short", fmt.Sprintf("stream delivered %d of %d vertices present before streaming started", got, c.N+1), true, ""
	}
	if perr := c08Probe(w); errors.Is(perr, sim.ErrStuck) || sim.IsPanic(perr) {
		wedged = true
		return "wedged-after:streamwriter", fmt.Sprintf("after stream+writer the node no longer serves: %v", perr), true, ""
	}
	return "", "", nontrivial, ""
}

func c08Dispatch(c c08Case) (string, string, bool, string) {
	if c.Op == "streamwriter" {
		return c08StreamWriter(c)
	}
	return c08Run(c)
}

var c08CancelOps = []string{"createleaf", "addleaf", "balance", "history", "stream"}

func TestC08(t *testing.T) {
	st := newStats(t, "C08", "cases = (operation, DAG shape, size n, cancellation index k via a counting context | early-exit kind | stream pause point j x writer kind), each on a fresh one-node world; oracle = goroutine profile (walker parked in chan send after the call returned; 3-way lock cycle) + probe operations; non-trivial = the operation was cancelled/exited while >=1 ancestor was still undelivered (k < n-1), or a stream was in progress when the writer arrived; distinct by case tuple")
	sim.Chdir(workDir(t))
	sh, n := shard(), nshards()
	incon := 0
	run := func(c c08Case, enumerated bool) bool {
		sig, msg, nt, inc := c08Dispatch(c)
		st.eval(1)
		st.label("op:" + c.Op)
		if inc != "" {
			incon++
			st.note("inconclusive case %+v: %s", c, inc)
			st.label("inconclusive-case")
			return true
		}
		if nt {
			if enumerated {
				st.enumNontrivial(1)
			} else {
				st.nontrivial(fp64(c.Op, c.Shape, c.N, c.K, c.J, c.WOp))
			}
		}
		if sig != "" {
			if enumerated {
				return !st.reportOnce(sig, msg, c)
			}
			return !st.report(sig, msg, c)
		}
		return true
	}

	t.Run("enum", func(t *testing.T) {
		failed := false
		idx := 0
		sizes := []int{2, 5}
		if thorough() {
			sizes = []int{1, 2, 3, 5, 8, 13}
		}
		for _, shape := range []string{"chain", "wide", "forked"} {
			for _, sz := range sizes {
				for _, op := range c08CancelOps {
					for k := -1; k <= sz+1; k++ {
						idx++
						if idx%n != sh {
							continue
						}
						if !run(c08Case{Op: op, Shape: shape, N: sz, K: k}, true) {
							failed = true
						}
					}
				}
			}
		}
		// early exits without cancellation
		for _, c := range []c08Case{
			{Op: "overflow", Shape: "chain", N: 4, K: -1},
			{Op: "truncate", Shape: "chain", N: 1150, K: -1},
			{Op: "truncate", Shape: "chain", N: 1150, K: 3},
			{Op: "truncate", Shape: "chain", N: 30, K: -1},
			{Op: "reads", Shape: "chain", N: 12, K: -1},
			{Op: "reads", Shape: "forked", N: 12, K: -1},
			{Op: "reads", Shape: "chain", N: 1150, K: -1, J: 1},
			{Op: "reads", Shape: "chain", N: 1150, K: 2, J: 1},
			{Op: "streamwriter", Shape: "chain", N: 260, J: 5, WOp: "createleaf", K: -1},
			{Op: "streamwriter", Shape: "chain", N: 260, J: 120, WOp: "addleaf", K: -1},
		} {
			idx++
			if idx%n != sh {
				continue
			}
			st.sample(c)
			if !run(c, true) {
				failed = true
			}
		}
		st.Exhaustive = true
		if failed {
			t.Errorf("C08: violations in enumeration")
		}
	})

	t.Run("random", func(t *testing.T) {
		rapid.Check(t, func(rt *rapid.T) {
			if pastSoftDeadline(st) || c08Worlds >= 3*maxWorlds() {
				// (one-node worlds of a few dozen vertices: three of them weigh about as much as one ledger-machine world)
				st.label("case-not-run:world-budget-of-process-used-up")
				return
			}
			var c c08Case
			kind := rapid.IntRange(0, 9).Draw(rt, "kind")
			switch {
			case kind <= 6:
				c.Op = rapid.SampledFrom(c08CancelOps).Draw(rt, "op")
				c.Shape = rapid.SampledFrom([]string{"chain", "wide", "forked", "forked"}).Draw(rt, "shape")
				c.N = rapid.IntRange(2, 60).Draw(rt, "n")
				c.K = rapid.IntRange(-1, c.N+1).Draw(rt, "k")
			case kind == 7:
				c = c08Case{Op: "overflow", Shape: "chain", N: rapid.IntRange(1, 20).Draw(rt, "n"), K: -1}
			default:
				c = c08Case{Op: "streamwriter", Shape: rapid.SampledFrom([]string{"chain", "wide", "forked"}).Draw(rt, "shape"),
					N: rapid.IntRange(120, 400).Draw(rt, "n"), K: -1,
					WOp: rapid.SampledFrom([]string{"createleaf", "addleaf"}).Draw(rt, "wop")}
				c.J = rapid.IntRange(0, c.N).Draw(rt, "j")
			}
			rt.Logf("case %+v", c)
			if !run(c, false) {
				rt.Fatalf("C08 violated: %+v", c)
			}
			st.sample(c)
		})
	})
	t.Run("histories", func(t *testing.T) {
		// every ledger operation of a generated history must return (no panic, no hang), whatever state the
		// ledger was driven into (all tips dropped, odd weights, duplicates, concurrent batches)
		runLedgerCases(t, st, "C08", lmRule{nontrivial: func(m *lm) bool {
			return m.labels["c01:tip-dropped"] > 0 || m.labels["op:concurrent-batch"] > 0
		}})
	})
	if incon > 0 && st.Evaluations > 0 && float64(incon)/float64(st.Evaluations) > 0.05 {
		st.inconclusive(fmt.Sprintf("%d of %d cases were inconclusive", incon, st.Evaluations))
	}
}

func TestReplayC08(t *testing.T) {
	var probe lmReplayFile
	loadReplay(t, &probe)
	if len(probe.Ops) > 0 {
		// a history of the ledger machine (stuck/panic found by TestC08_histories)
		lmReplay(t, "C08")
		return
	}
	var c c08Case
	loadReplay(t, &c)
	sim.Chdir(t.TempDir())
	sig, msg, _, inc := c08Dispatch(c)
	if sig != "" {
		t.Fatalf("VIOLATION reproduced sig=%s: %s", sig, msg)
	}
	if inc != "" {
		t.Logf("inconclusive: %s", inc)
	}
}

var _ = accountant.ErrBreak
