package checks

import (
	"context"
	"crypto/sha256"
	"fmt"
	"net"
	"runtime"
	"sort"
	"strings"
	"testing"
	"time"

	"github.com/bartossh/Computantis/src/accountant"
	"github.com/bartossh/Computantis/src/cache"
	"github.com/bartossh/Computantis/src/gossip"
	"github.com/bartossh/Computantis/src/pipe"
	"github.com/bartossh/Computantis/src/protobufcompiled"
	"github.com/bartossh/Computantis/src/spice"
	"github.com/bartossh/Computantis/src/wallet"
	"github.com/mr-tron/base58"
	"google.golang.org/grpc"
	"google.golang.org/grpc/credentials/insecure"
	"google.golang.org/grpc/test/bufconn"
	"google.golang.org/protobuf/proto"
	"google.golang.org/protobuf/types/known/emptypb"
	"pgregory.net/rapid"

	"verif/harness/ref"
	"verif/harness/sim"
)

// C15 — no request can crash a node.

// ---- shape classes ----

var c15ByteLens = []int{-1, 0, 1, 31, 32, 33, 63, 64, 65, 4096} // -1 = nil

func shapeBytes(n int, salt byte) []byte {
	if n < 0 {
		return nil
	}
	return fill(n, "rand", salt)
}

// addrOddKey: a self-made address with a correct checksum over a payload whose key part is not 32 bytes.
func addrOddKey(n int) string {
	body := append([]byte{0}, fill(n, "rand", byte(n))...)
	a := sha256.Sum256(body)
	b := sha256.Sum256(a[:])
	return base58.Encode(append(body, b[:4]...))
}

// sinkClient is an idle peer: it swallows whatever the node forwards.
type sinkClient struct {
	protobufcompiled.GossipAPIClient
}

func (sinkClient) GossipVrx(context.Context, *protobufcompiled.VrxMsgGossip, ...grpc.CallOption) (*emptypb.Empty, error) {
	return &emptypb.Empty{}, nil
}
func (sinkClient) GossipTrx(context.Context, *protobufcompiled.TrxMsgGossip, ...grpc.CallOption) (*emptypb.Empty, error) {
	return &emptypb.Empty{}, nil
}
func (sinkClient) GetVertex(context.Context, *protobufcompiled.SignedHash, ...grpc.CallOption) (*protobufcompiled.Vertex, error) {
	return nil, fmt.Errorf("idle peer")
}

type c15Env struct {
	peerConn   *grpc.ClientConn
	peerClient protobufcompiled.GossipAPIClient
	lastSnap   *sim.Snap
	s          *svc
	keys       []*ref.Key
	peerA      *ref.Key
	txHash     ref.Hash // hash of a transaction sealed in the ledger
	vHash      ref.Hash // hash of a vertex in the ledger
	tip        *accountant.Vertex
}

func c15NewEnv(seed string) (*c15Env, error) {
	s, err := newSvc(seed, 4, 3, false, 60)
	if err != nil {
		if s != nil {
			s.close()
		}
		return nil, err
	}
	e := &c15Env{s: s, keys: s.w.Wallets, peerA: ref.NewKey("peer-a", []byte(seed+"peer"))}
	s.w.Nodes[0].Log.Keep = true
	snap, err := s.w.Snapshot(s.w.Nodes[0])
	if err != nil {
		return e, err
	}
	tips := ref.SortedHashes(snap.Tips())
	e.tip = snap.Live[tips[0]]
	e.vHash = e.tip.Hash
	e.txHash = e.tip.Transaction.Hash
	// a peer table with one idle connection
	conn, err := grpc.Dial("passthrough:///idle-peer", grpc.WithTransportCredentials(insecure.NewCredentials()))
	if err != nil {
		return e, err
	}
	e.peerConn, e.peerClient = conn, &sinkClient{}
	e.s.gossip.SetPeer(e.peerA.Addr, "idle-peer", e.peerClient, conn)
	return e, nil
}

// state is everything a rejected request must leave unchanged.
func (e *c15Env) state() (string, error) {
	var snap *sim.Snap
	snap, err := e.s.w.Snapshot(e.s.w.Nodes[0])
	if err != nil {
		return "", err
	}
	e.lastSnap = snap
	var b strings.Builder
	// the orphan buffer is not part of "the ledger": a vertex whose parent is unknown is reported as such AND parked (C13)
	b.WriteString(snap.Digest(false))
	for _, k := range e.keys {
		var hs []string
		for h := range e.s.awaitingOf(k.Addr) {
			hs = append(hs, fmt.Sprintf("%x", h[:6]))
		}
		sort.Strings(hs)
		fmt.Fprintf(&b, "|%s:%v", k.Name, hs)
	}
	peers := e.s.gossip.Peers()
	var ps []string
	for a, u := range peers {
		ps = append(ps, a+"="+u)
	}
	sort.Strings(ps)
	fmt.Fprintf(&b, "|peers:%v", ps)
	return b.String(), nil
}

// panicSite names the innermost repository function on a panicking stack.
func panicSite(stack string) string {
	for _, line := range strings.Split(stack, "\n") {
		line = strings.TrimSpace(line)
		if strings.HasPrefix(line, "github.com/bartossh/Computantis/src/") {
			f := strings.TrimPrefix(line, "github.com/bartossh/Computantis/src/")
			if i := strings.LastIndex(f, "("); i > 0 {
				f = f[:i]
			}
			return f
		}
	}
	return "unknown"
}

type c15Req struct {
	RPC   string `json:"rpc"`
	Desc  string `json:"desc"`
	Proto []byte `json:"proto"` // serialized request (replayable)
}

// c15Call runs one request against the service under recover and judges it.
func (e *c15Env) c15Call(rpc string, msg proto.Message, desc string) (sig, text string, reached bool, wedged bool) {
	before, err := e.state()
	if err != nil {
		return "", "", false, true
	}
	snapBefore := e.lastSnap
	var rerr error
	var stack string
	var pn any
	done := make(chan struct{})
	go func() {
		defer close(done)
		defer func() {
			if r := recover(); r != nil {
				pn = r
				buf := make([]byte, 16384)
				stack = string(buf[:runtime.Stack(buf, false)])
			}
		}()
		rerr = e.dispatch(rpc, msg)
	}()
	select {
	case <-done:
	case <-time.After(20 * time.Second):
		return "hang:" + rpc, fmt.Sprintf("%s did not return for request %s", rpc, desc), true, true
	}
	if pn != nil {
		site := panicSite(stack)
		return "panic:" + site, fmt.Sprintf("%s panicked in %s on request {%s}: %v", rpc, site, desc, pn), true, false
	}
	reached = rerr == nil || !strings.Contains(rerr.Error(), "is nil")
	if rerr != nil {
		// give the handlers' fire-and-forget goroutines (cache invalidation) a moment; they never touch the compared state
		after, err := e.state()
		if err != nil {
			return "", "", reached, true
		}
		if after != before {
			snapAfter := e.lastSnap
			// classify: the only change is that tentative tips the reference judges invalid were dropped (the
			// request's own sealing step validated them) - a known side effect of how CreateLeaf reports a dropped tip
			var removed, added []string
			onlyInvalidTipsDropped := true
			for h, v := range snapBefore.Live {
				if _, ok := snapAfter.Live[h]; !ok {
					_, wasTip := snapBefore.Tips()[h]
					H := e.s.w.Arch.Anc(h)
					in, out := e.s.w.Arch.Flow(H, v.Transaction.IssuerAddress)
					need := out.Add(out, ref.V(v.Transaction.Spice))
					removed = append(removed, fmt.Sprintf("%x[issuer %.8s receiver %.8s amount %d.%d data %dB tip=%v received %s needs %s sealer %.8s]", h[:4], v.Transaction.IssuerAddress, v.Transaction.ReceiverAddress, v.Transaction.Spice.Currency, v.Transaction.Spice.SupplementaryCurrency, len(v.Transaction.Data), wasTip, in, need, v.SignerPublicAddress))
					invalid := !ref.VertexValid(v) || (ref.IsSpice(v) && in.Cmp(need) < 0)
					if !wasTip || !invalid {
						onlyInvalidTipsDropped = false
					}
				}
			}
			for h := range snapAfter.Live {
				if _, ok := snapBefore.Live[h]; !ok {
					added = append(added, fmt.Sprintf("%x", h[:4]))
				}
			}
			if len(removed) > 0 && len(added) == 0 && onlyInvalidTipsDropped && strings.HasPrefix(rpc, "notary.") {
				return "rejected-request-dropped-invalid-tip", fmt.Sprintf("%s returned error %q for request {%s} after its sealing step dropped the invalid tentative tip(s) %v: the refused request changed the ledger", rpc, rerr, desc, removed), reached, false
			}
			var lastLog []string
			if l := e.s.w.Nodes[0].Log; l != nil {
				l.Keep = true
				if n := len(l.Lines); n > 0 {
					lastLog = l.Lines[max(0, n-3):]
				}
			}
			return "rejected-request-changed-state:" + rpc, fmt.Sprintf("%s returned error %q for request {%s} but ledger / awaiting lists / peer table changed (vertices removed %v added %v; node log: %v)", rpc, rerr, desc, removed, added, lastLog), reached, false
		}
	}
	return "", "", reached, false
}

func (e *c15Env) dispatch(rpc string, msg proto.Message) error {
	ctx := context.Background()
	n, g, wh := e.s.notary, e.s.gossip.Server(), e.s.webhooks
	var err error
	switch rpc {
	case "notary.Alive":
		_, err = n.Alive(ctx, msg.(*emptypb.Empty))
	case "notary.Propose":
		_, err = n.Propose(ctx, msg.(*protobufcompiled.Transaction))
	case "notary.Confirm":
		_, err = n.Confirm(ctx, msg.(*protobufcompiled.Transaction))
	case "notary.Reject":
		_, err = n.Reject(ctx, msg.(*protobufcompiled.SignedHash))
	case "notary.Waiting":
		_, err = n.Waiting(ctx, msg.(*protobufcompiled.SignedHash))
	case "notary.Saved":
		_, err = n.Saved(ctx, msg.(*protobufcompiled.SignedHash))
	case "notary.Data":
		_, err = n.Data(ctx, msg.(*protobufcompiled.Address))
	case "notary.TransactionsInDAG":
		_, err = n.TransactionsInDAG(ctx, msg.(*protobufcompiled.SignedHash))
	case "notary.Balance":
		_, err = n.Balance(ctx, msg.(*protobufcompiled.SignedHash))
	case "gossip.Alive":
		_, err = g.Alive(ctx, msg.(*emptypb.Empty))
	case "gossip.Announce":
		_, err = g.Announce(ctx, msg.(*protobufcompiled.ConnectionData))
	case "gossip.Discover":
		_, err = g.Discover(ctx, msg.(*protobufcompiled.ConnectionData))
	case "gossip.GossipVrx":
		_, err = g.GossipVrx(ctx, msg.(*protobufcompiled.VrxMsgGossip))
	case "gossip.GossipTrx":
		_, err = g.GossipTrx(ctx, msg.(*protobufcompiled.TrxMsgGossip))
	case "gossip.GetVertex":
		_, err = g.GetVertex(ctx, msg.(*protobufcompiled.SignedHash))
	case "webhooks.Alive":
		_, err = wh.Alive(ctx, msg.(*emptypb.Empty))
	case "webhooks.Webhooks":
		_, err = wh.Webhooks(ctx, msg.(*protobufcompiled.SignedHash))
	case "client.LoadDag", "client.GetVertex":
		err = e.clientIngest(rpc, msg.(*protobufcompiled.Vertex))
	default:
		err = fmt.Errorf("unknown rpc %s", rpc)
	}
	return err
}

// clientIngest: a malicious peer answers LoadDag / GetVertex with the given vertex; the real client code consumes it.
func (e *c15Env) clientIngest(rpc string, v *protobufcompiled.Vertex) error {
	lis := bufconn.Listen(1 << 16)
	srv := grpc.NewServer()
	protobufcompiled.RegisterGossipAPIServer(srv, &evilPeer{v: v})
	go srv.Serve(lis)
	defer srv.Stop()
	opts := []grpc.DialOption{
		grpc.WithContextDialer(func(ctx context.Context, _ string) (net.Conn, error) { return lis.DialContext(ctx) }),
		grpc.WithTransportCredentials(insecure.NewCredentials()),
	}
	if rpc == "client.LoadDag" {
		// a fresh, not yet loaded book consumes the stream through the real updateDag
		w := e.s.w
		n, err := w.NewDetachedNode(fmt.Sprintf("ingest-%d", time.Now().UnixNano()))
		if err != nil {
			return err
		}
		flash, _ := cache.NewFlash()
		hip, _ := cache.New(4096, 8)
		defer flash.Close()
		defer hip.Close()
		cl := gossip.VerifNewGossiper("client", sim.NewLogger(), time.Second, n.Key, wallet.NewVerifier(), n.Book, hip, flash, pipe.New(4, 4), opts)
		err = cl.UpdateDag(context.Background(), "passthrough:///evil")
		for i := 0; i < 5000 && loadDagRunning(); i++ {
			time.Sleep(time.Millisecond)
		}
		return err
	}
	conn, err := grpc.Dial("passthrough:///evil", opts...)
	if err != nil {
		return err
	}
	defer conn.Close()
	// the node's own gossiper asks its (evil) peer for a missing parent
	evil := ref.NewKey("evil-peer", []byte("evil"))
	e.s.gossip.SetPeer(evil.Addr, "evil", protobufcompiled.NewGossipAPIClient(conn), conn)
	defer e.s.gossip.RemovePeer(evil.Addr)
	defer e.s.gossip.SetPeer(e.peerA.Addr, "idle-peer", e.peerClient, e.peerConn)
	e.s.gossip.RemovePeer(e.peerA.Addr)
	e.s.gossip.ProcessLackingParent(context.Background(), ref.Hash{1, 2, 3})
	if v != nil && len(v.Hash) == 32 {
		var h ref.Hash
		copy(h[:], v.Hash)
		if got, err := e.s.book.ReadVertex(context.Background(), h); err == nil && ref.VertexValid(&got) {
			return nil // a valid vertex was legitimately admitted: not a rejected request
		}
	}
	return fmt.Errorf("ingested vertex not admitted") // then the state must be unchanged
}

type evilPeer struct {
	protobufcompiled.UnimplementedGossipAPIServer
	v *protobufcompiled.Vertex
}

func (p *evilPeer) LoadDag(_ *emptypb.Empty, srv protobufcompiled.GossipAPI_LoadDagServer) error {
	return srv.Send(p.v)
}
func (p *evilPeer) GetVertex(context.Context, *protobufcompiled.SignedHash) (*protobufcompiled.Vertex, error) {
	return p.v, nil
}

// ---- generators ----

// c15AddrClasses: 0-6 as below, 7.. = base58 strings decoding to exactly 1,2,3,4,5,6,36,38 arbitrary bytes (shorter
// than / around the version+key+checksum layout).
const c15AddrClasses = 15

func (e *c15Env) addrClass(i int) (string, *ref.Key) {
	i %= c15AddrClasses
	if i >= 7 {
		n := []int{1, 2, 3, 4, 5, 6, 36, 38}[i-7]
		b := fill(n, "rand", byte(n))
		b[0] |= 1 // no leading zero byte, so the decoded length is exactly n
		return base58.Encode(b), nil
	}
	switch i % 7 {
	case 0:
		return "", nil
	case 1:
		return "garbage-not-base58-0OIl", nil
	case 2:
		return e.keys[1].Addr, e.keys[1]
	case 3:
		return e.keys[2].Addr, e.keys[2]
	case 4:
		return addrOddKey(31), nil
	case 5:
		return addrOddKey(33), nil
	}
	return addrOddKey(0), nil
}

// signedHashShapes enumerates SignedHash requests: address class x data class x hash class x signature class.
func (e *c15Env) signedHashShapes(f func(m *protobufcompiled.SignedHash, desc string)) {
	challenge := e.s.dp.ProvideData(e.keys[1].Addr)
	datas := map[string][]byte{"nil": nil, "empty": {}, "1B": {1}, "31B": fill(31, "rand", 1), "32B": fill(32, "rand", 2), "33B": fill(33, "rand", 3),
		"4096B": fill(4096, "rand", 4), "challenge": challenge, "own-address": []byte(e.keys[1].Addr), "sealed-tx-hash": e.txHash[:], "vertex-hash": e.vHash[:], "url": []byte("http://x/y")}
	var dnames []string
	for k := range datas {
		dnames = append(dnames, k)
	}
	sort.Strings(dnames)
	for ai := 0; ai < c15AddrClasses; ai++ {
		addr, key := e.addrClass(ai)
		for _, dn := range dnames {
			data := datas[dn]
			digest := sha256.Sum256(data)
			hashes := map[string][]byte{"nil": nil, "1B": {7}, "31B": digest[:31], "32B-wrong": fill(32, "ff", 0), "32B-right": digest[:], "33B": append(digest[:], 0), "64B": append(digest[:], digest[:]...)}
			var hnames []string
			for k := range hashes {
				hnames = append(hnames, k)
			}
			sort.Strings(hnames)
			for _, hn := range hnames {
				sigs := map[string][]byte{"nil": nil, "1B": {1}, "63B": fill(63, "rand", 5), "64B-garbage": fill(64, "rand", 6), "65B": fill(65, "rand", 7)}
				if key != nil {
					_, sigs["valid"] = key.Sign(data)
				} else {
					_, sigs["valid-by-other"] = e.keys[1].Sign(data)
				}
				var snames []string
				for k := range sigs {
					snames = append(snames, k)
				}
				sort.Strings(snames)
				for _, sn := range snames {
					f(&protobufcompiled.SignedHash{Address: addr, Data: data, Hash: hashes[hn], Signature: sigs[sn]},
						fmt.Sprintf("address=%d data=%s hash=%s signature=%s", ai, dn, hn, sn))
				}
			}
		}
	}
}

// trxShapes enumerates Transaction requests.
func (e *c15Env) trxShapes(f func(m *protobufcompiled.Transaction, desc string)) {
	ctr := 0
	for _, subj := range []string{"", "s"} {
		for ai := 0; ai < 7; ai++ {
			issuer, ikey := e.addrClass(ai)
			for _, ri := range []int{0, 1, 3, 4} {
				receiver, rkey := e.addrClass(ri)
				for _, created := range []uint64{0, uint64(1_700_000_000_000_000_000)} {
					for _, dl := range []int{-1, 0, 5, 4096} {
						for _, sp := range []string{"nil", "zero", "some", "noncanonical"} {
							ctr++
							t := ref.MakeTx("x", spice.Melange{}, shapeBytes(dl, 3), receiver, e.keys[1], time.Unix(0, int64(created)+int64(ctr)))
							t.Subject, t.IssuerAddress = subj, issuer
							switch sp {
							case "some":
								t.Spice = spice.New(0, 7)
							case "noncanonical":
								t.Spice = spice.Melange{Currency: 0, SupplementaryCurrency: ^uint64(0)}
							}
							if created == 0 {
								t.CreatedAt = time.Unix(0, 0)
							}
							digest := sha256.Sum256(ref.TxMessage(&t))
							hashes := map[string][]byte{"nil": nil, "1B": {1}, "31B": digest[:31], "32B-wrong": fill(32, "ff", 1), "32B-right": digest[:], "33B": append(digest[:], 1)}
							for hn, h := range hashes {
								isigs := map[string][]byte{"nil": nil, "63B": fill(63, "rand", 1), "64B-garbage": fill(64, "rand", 2)}
								if ikey != nil {
									_, isigs["valid"] = ikey.Sign(ref.TxMessage(&t))
								}
								for isn, isig := range isigs {
									rsigs := map[string][]byte{"nil": nil, "1B": {9}}
									if rkey != nil {
										_, rsigs["valid"] = rkey.Sign(ref.TxMessage(&t))
									}
									for rsn, rsig := range rsigs {
										pt := &protobufcompiled.Transaction{Subject: t.Subject, Data: t.Data, Hash: h, CreatedAt: created, ReceiverAddress: receiver, IssuerAddress: issuer, ReceiverSignature: rsig, IssuerSignature: isig}
										if created != 0 {
											pt.CreatedAt = uint64(t.CreatedAt.UnixNano())
										}
										if sp != "nil" {
											pt.Spice = &protobufcompiled.Spice{Currency: t.Spice.Currency, SupplementaryCurrency: t.Spice.SupplementaryCurrency}
										}
										f(pt, fmt.Sprintf("subject=%q issuer=%d receiver=%d createdAt=%d data=%d spice=%s hash=%s issuerSig=%s receiverSig=%s", subj, ai, ri, created, dl, sp, hn, isn, rsn))
									}
								}
							}
						}
					}
				}
			}
		}
	}
}

// vertexShapes enumerates wire vertices (for GossipVrx and for client-side ingestion).
func (e *c15Env) vertexShapes(f func(v *protobufcompiled.Vertex, desc string)) {
	tip := e.tip
	mk := func() *protobufcompiled.Vertex {
		tx := e.s.w.MakeTx(1, 2, spice.Melange{}, 6)
		v := e.s.w.Craft(e.s.w.RogueWallet(0), tx, tip.Hash, tip.Hash, 0)
		return gossip.VerifVertexToProto(v)
	}
	f(nil, "vertex=nil")
	for _, hl := range c15ByteLens {
		v := mk()
		v.Hash = shapeBytes(hl, 1)
		f(v, fmt.Sprintf("vertex.hash=%dB", hl))
		v = mk()
		v.LeftParentHash = shapeBytes(hl, 2)
		f(v, fmt.Sprintf("vertex.left=%dB", hl))
		v = mk()
		v.RightParentHash = shapeBytes(hl, 3)
		f(v, fmt.Sprintf("vertex.right=%dB", hl))
		v = mk()
		v.Signature = shapeBytes(hl, 4)
		f(v, fmt.Sprintf("vertex.signature=%dB", hl))
		v = mk()
		v.Transaction.Hash = shapeBytes(hl, 5)
		f(v, fmt.Sprintf("vertex.transaction.hash=%dB", hl))
		v = mk()
		v.Transaction.IssuerSignature = shapeBytes(hl, 6)
		f(v, fmt.Sprintf("vertex.transaction.issuerSignature=%dB", hl))
		v = mk()
		v.Transaction.ReceiverSignature = shapeBytes(hl, 7)
		f(v, fmt.Sprintf("vertex.transaction.receiverSignature=%dB", hl))
	}
	v := mk()
	v.Transaction = nil
	f(v, "vertex.transaction=nil")
	v = mk()
	v.Transaction.Spice = nil
	f(v, "vertex.transaction.spice=nil")
	for ai := 0; ai < c15AddrClasses; ai++ {
		a, _ := e.addrClass(ai)
		v = mk()
		v.SignerPublicAddress = a
		f(v, fmt.Sprintf("vertex.signer=%d", ai))
		v = mk()
		v.Transaction.IssuerAddress = a
		f(v, fmt.Sprintf("vertex.transaction.issuer=%d", ai))
		v = mk()
		v.Transaction.ReceiverAddress = a
		f(v, fmt.Sprintf("vertex.transaction.receiver=%d", ai))
	}
	f(mk(), "vertex=valid")
	// Vertices that carry a transaction the node is currently AWAITING (hash and receiver of an entry in the awaiting
	// lists): refusing such a vertex - unknown parents, damaged seal, forged body - must leave the entry where it is.
	unknownL, unknownR := shapeBytes(32, 0x51), shapeBytes(32, 0x52)
	for _, sh := range []string{"unknown-parents sealed", "unknown-parents garbage-seal", "unknown-parents unsigned", "known-parents garbage-seal", "forged-body unknown-parents"} {
		atx := e.s.w.MakeTx(1, 2, spice.Melange{}, 12)
		if err := e.s.hip.SaveAwaitedTransaction(&atx); err != nil {
			continue
		}
		var l, r ref.Hash
		copy(l[:], unknownL)
		copy(r[:], unknownR)
		if strings.HasPrefix(sh, "known-parents") {
			l, r = tip.Hash, tip.Hash
		}
		pv := gossip.VerifVertexToProto(e.s.w.Craft(e.s.w.RogueWallet(0), atx, l, r, 7))
		switch {
		case strings.HasSuffix(sh, "garbage-seal"):
			pv.Signature = shapeBytes(64, 9)
		case strings.HasSuffix(sh, "unsigned"):
			pv.Signature, pv.Transaction.IssuerSignature = nil, nil
		case strings.HasPrefix(sh, "forged-body"):
			pv.Transaction.Subject, pv.Transaction.Data = "forged", shapeBytes(5, 3)
		}
		f(pv, "vertex.transaction=awaited "+sh)
	}
}

func (e *c15Env) gossiperLists(hash []byte) map[string][]*protobufcompiled.Gossiper {
	var h ref.Hash
	copy(h[:], hash)
	k := e.keys[2]
	d, s := k.Sign(append([]byte(k.Addr), h[:]...))
	valid := &protobufcompiled.Gossiper{Address: k.Addr, Digest: d[:], Signature: s}
	return map[string][]*protobufcompiled.Gossiper{
		"nil": nil, "empty": {}, "[nil]": {nil}, "[valid]": {valid}, "[valid,nil]": {valid, nil},
		"[short-digest]":  {{Address: k.Addr, Digest: d[:5], Signature: s}},
		"[nil-digest]":    {{Address: k.Addr, Signature: s}},
		"[odd-key-addr]":  {{Address: addrOddKey(31), Digest: d[:], Signature: s}},
		"[empty-address]": {{Digest: d[:], Signature: s}},
		"[4-byte-address]": func() []*protobufcompiled.Gossiper {
			a := base58.Encode([]byte{9, 8, 7, 6})
			dd := sha256.Sum256(append([]byte(a), h[:]...))
			return []*protobufcompiled.Gossiper{{Address: a, Digest: dd[:], Signature: s}}
		}(),
		"[long-digest]": {{Address: k.Addr, Digest: append(d[:], 1, 2), Signature: s}},
	}
}

func TestC15(t *testing.T) {
	st := newStats(t, "C15", "cases = structured requests for every RPC of the notary, gossip and webhooks services (product of per-field shape classes: sub-message nil/present, repeated field nil/empty/[nil]/valid, bytes fields nil/0/1/31/32/33/63/64/65/4096 bytes, addresses empty/garbage/valid/correct-checksum-over-odd-key-length, signatures absent/garbage/valid so that handlers are reached past their signature checks) plus vertices handed to the real sync and missing-parent clients by a malicious in-memory peer; rapid adds random combinations; oracle = no panic under recover, and on an error return the ledger snapshot, awaiting lists and peer table are unchanged; non-trivial = the request gets past the handler's first nil check; enumerated tuples distinct by construction, random by fingerprint")
	sim.Chdir(workDir(t))
	var e *c15Env
	envs := 0
	fresh := func() bool {
		if e != nil {
			e.s.close()
		}
		envs++
		var err error
		e, err = c15NewEnv(fmt.Sprintf("c15-%d-%d", shard(), envs))
		if err != nil {
			st.inconclusive("env: " + err.Error())
			return false
		}
		return true
	}
	if !fresh() {
		return
	}
	defer func() { e.s.close() }()
	sh, n := shard(), nshards()
	idx := 0
	failed := false
	run := func(rpc string, msg proto.Message, desc string, enumerated bool) bool {
		if enumerated {
			idx++
			if idx%n != sh {
				return true
			}
		}
		sig, text, reached, wedged := e.c15Call(rpc, msg, desc)
		st.eval(1)
		st.label("rpc:" + rpc)
		if reached {
			if enumerated {
				st.enumNontrivial(1)
			} else {
				st.nontrivial(fp64(rpc, desc))
			}
		}
		ok := true
		if sig != "" {
			st.label("flagged:" + sig)
			raw, _ := proto.Marshal(msg)
			req := c15Req{RPC: rpc, Desc: desc, Proto: raw}
			if enumerated {
				ok = !st.reportOnce(sig, text, req)
			} else {
				ok = !st.report(sig, text, req)
			}
			if st.isKnown(sig) {
				st.exclude(1)
			}
		}
		if wedged || strings.HasPrefix(sig, "panic:") || strings.HasPrefix(sig, "rejected-request-changed-state") {
			// a panic may leave a lock held or state half-changed: never reuse that node
			if envs > 60 || !fresh() {
				st.inconclusive("environment budget exhausted by crashing requests")
				return false
			}
		}
		return ok
	}

	t.Run("enum", func(t *testing.T) {
		for _, rpc := range []string{"notary.Alive", "gossip.Alive", "webhooks.Alive"} {
			if !run(rpc, &emptypb.Empty{}, "empty", true) {
				failed = true
			}
		}
		for _, a := range []string{"", "x", e.keys[1].Addr, addrOddKey(31), string(fill(4096, "ascii", 1))} {
			if !run("notary.Data", &protobufcompiled.Address{Public: a}, "public="+a[:min(len(a), 12)], true) {
				failed = true
			}
		}
		for _, rpc := range []string{"notary.Reject", "notary.Waiting", "notary.Saved", "notary.Balance", "notary.TransactionsInDAG", "gossip.GetVertex", "webhooks.Webhooks"} {
			rpc := rpc
			e.signedHashShapes(func(m *protobufcompiled.SignedHash, desc string) {
				if !run(rpc, m, desc, true) {
					failed = true
				}
			})
		}
		for _, rpc := range []string{"notary.Propose", "notary.Confirm"} {
			rpc := rpc
			e.trxShapes(func(m *protobufcompiled.Transaction, desc string) {
				if !run(rpc, m, desc, true) {
					failed = true
				}
			})
		}
		// gossip of vertices and transactions
		e.vertexShapes(func(v *protobufcompiled.Vertex, desc string) {
			var h []byte
			if v != nil {
				h = v.Hash
			}
			for gn, gl := range e.gossiperLists(h) {
				var vc *protobufcompiled.Vertex
				if v != nil {
					vc = proto.Clone(v).(*protobufcompiled.Vertex)
				}
				if !run("gossip.GossipVrx", &protobufcompiled.VrxMsgGossip{Vertex: vc, Gossipers: gl}, desc+" gossipers="+gn, true) {
					failed = true
				}
			}
			if v != nil {
				if !run("client.GetVertex", proto.Clone(v).(*protobufcompiled.Vertex), desc, true) {
					failed = true
				}
				if !run("client.LoadDag", proto.Clone(v).(*protobufcompiled.Vertex), desc, true) {
					failed = true
				}
			}
		})
		cnt := 0
		e.trxShapes(func(m *protobufcompiled.Transaction, desc string) {
			cnt++
			if cnt%9 != 0 {
				return
			}
			gls := e.gossiperLists(m.Hash)
			for _, gn := range []string{"nil", "[nil]", "[valid]", "[short-digest]"} {
				if !run("gossip.GossipTrx", &protobufcompiled.TrxMsgGossip{Trx: proto.Clone(m).(*protobufcompiled.Transaction), Gossipers: gls[gn]}, desc+" gossipers="+gn, true) {
					failed = true
				}
			}
		})
		if !run("gossip.GossipTrx", &protobufcompiled.TrxMsgGossip{}, "trx=nil", true) {
			failed = true
		}
		// Announce / Discover
		now := uint64(1_700_000_000_000_000_000)
		for ai := 0; ai <= c15AddrClasses; ai++ {
			addr, key := e.addrClass(ai)
			if ai == c15AddrClasses {
				addr, key = e.peerA.Addr, e.peerA // an already connected peer
			}
			for _, url := range []string{"", "somewhere:1"} {
				data := append(append([]byte(addr), []byte(url)...), le64u(now)...)
				digest := sha256.Sum256(data)
				for hn, h := range map[string][]byte{"nil": nil, "5B": digest[:5], "32B-right": digest[:], "32B-wrong": fill(32, "ff", 2), "40B": append(digest[:], fill(8, "ff", 1)...)} {
					sigs := map[string][]byte{"nil": nil, "64B-garbage": fill(64, "rand", 3)}
					if key != nil {
						_, sigs["valid"] = key.Sign(data)
					}
					for sn, s := range sigs {
						for _, rpc := range []string{"gossip.Announce", "gossip.Discover"} {
							m := &protobufcompiled.ConnectionData{PublicAddress: addr, Url: url, CreatedAt: now, Digest: h, Signature: s}
							if !run(rpc, m, fmt.Sprintf("address=%d url=%q digest=%s signature=%s", ai, url, hn, sn), true) {
								failed = true
							}
						}
					}
				}
			}
		}
		st.Exhaustive = true
		st.sample(map[string]string{"rpc": "notary.Reject", "request": "address=valid data=sealed-tx-hash hash=31B signature=valid"})
		if failed {
			t.Errorf("C15: violations in enumeration")
		}
	})

	t.Run("random", func(t *testing.T) {
		rapid.Check(t, func(rt *rapid.T) {
			if pastSoftDeadline(st) {
				return
			}
			bytesG := rapid.Custom(func(rt *rapid.T) []byte {
				return shapeBytes(rapid.SampledFrom(c15ByteLens).Draw(rt, "len"), rapid.Byte().Draw(rt, "salt"))
			})
			addrG := rapid.Custom(func(rt *rapid.T) string {
				a, _ := e.addrClass(rapid.IntRange(0, c15AddrClasses-1).Draw(rt, "addrClass"))
				return a
			})
			kind := rapid.IntRange(0, 3).Draw(rt, "kind")
			var rpc, desc string
			var msg proto.Message
			switch kind {
			case 0:
				rpc = rapid.SampledFrom([]string{"notary.Reject", "notary.Waiting", "notary.Saved", "notary.Balance", "notary.TransactionsInDAG", "gossip.GetVertex", "webhooks.Webhooks"}).Draw(rt, "rpc")
				k := e.keys[1+rapid.IntRange(0, 2).Draw(rt, "key")]
				data := bytesG.Draw(rt, "data")
				m := &protobufcompiled.SignedHash{Address: addrG.Draw(rt, "address"), Data: data, Hash: bytesG.Draw(rt, "hash"), Signature: bytesG.Draw(rt, "signature")}
				if rapid.Bool().Draw(rt, "signed") {
					d, s := k.Sign(data)
					m.Address, m.Signature = k.Addr, s
					if rapid.Bool().Draw(rt, "rightDigest") {
						m.Hash = d[:]
					}
				}
				msg, desc = m, fmt.Sprintf("random signedhash data=%dB hash=%dB sig=%dB addr=%.8s", len(m.Data), len(m.Hash), len(m.Signature), m.Address)
			case 1:
				rpc = rapid.SampledFrom([]string{"notary.Propose", "notary.Confirm", "gossip.GossipTrx"}).Draw(rt, "rpc")
				m := &protobufcompiled.Transaction{Subject: rapid.SampledFrom([]string{"", "s", "subject"}).Draw(rt, "subject"), Data: bytesG.Draw(rt, "data"), Hash: bytesG.Draw(rt, "hash"),
					CreatedAt: rapid.SampledFrom([]uint64{0, 1, 1_700_000_000_000_000_000}).Draw(rt, "createdAt"), ReceiverAddress: addrG.Draw(rt, "receiver"), IssuerAddress: addrG.Draw(rt, "issuer"),
					ReceiverSignature: bytesG.Draw(rt, "rsig"), IssuerSignature: bytesG.Draw(rt, "isig")}
				if rapid.Bool().Draw(rt, "spice") {
					m.Spice = &protobufcompiled.Spice{Currency: rapid.Uint64().Draw(rt, "cur"), SupplementaryCurrency: rapid.Uint64().Draw(rt, "supp")}
				}
				desc = fmt.Sprintf("random trx hash=%dB isig=%dB rsig=%dB spice=%v", len(m.Hash), len(m.IssuerSignature), len(m.ReceiverSignature), m.Spice != nil)
				if rpc == "gossip.GossipTrx" {
					gl := e.gossiperLists(m.Hash)
					names := []string{"nil", "empty", "[nil]", "[valid]", "[short-digest]", "[odd-key-addr]"}
					gn := rapid.SampledFrom(names).Draw(rt, "gossipers")
					msg, desc = &protobufcompiled.TrxMsgGossip{Trx: m, Gossipers: gl[gn]}, desc+" gossipers="+gn
				} else {
					msg = m
				}
			case 2:
				rpc = rapid.SampledFrom([]string{"gossip.GossipVrx", "client.GetVertex"}).Draw(rt, "rpc")
				tx := e.s.w.MakeTx(1, 2, spice.Melange{}, 6)
				v := gossip.VerifVertexToProto(e.s.w.Craft(e.s.w.RogueWallet(0), tx, e.tip.Hash, e.tip.Hash, 0))
				for i := 0; i < rapid.IntRange(1, 3).Draw(rt, "nmut"); i++ {
					switch rapid.IntRange(0, 9).Draw(rt, "field") {
					case 0:
						v.Hash = bytesG.Draw(rt, "b")
					case 1:
						v.LeftParentHash = bytesG.Draw(rt, "b")
					case 2:
						v.RightParentHash = bytesG.Draw(rt, "b")
					case 3:
						v.Signature = bytesG.Draw(rt, "b")
					case 4:
						if v.Transaction != nil {
							v.Transaction.Hash = bytesG.Draw(rt, "b")
						}
					case 5:
						if v.Transaction != nil {
							v.Transaction.Spice = nil
						}
					case 6:
						v.Transaction = nil
					case 7:
						v.SignerPublicAddress = addrG.Draw(rt, "a")
					case 8:
						if v.Transaction != nil {
							v.Transaction.IssuerAddress = addrG.Draw(rt, "a")
						}
					case 9:
						if v.Transaction != nil {
							v.Transaction.IssuerSignature = bytesG.Draw(rt, "b")
						}
					}
				}
				desc = fmt.Sprintf("random vertex hash=%dB tx=%v", len(v.Hash), v.Transaction != nil)
				if rpc == "gossip.GossipVrx" {
					gl := e.gossiperLists(v.Hash)
					gn := rapid.SampledFrom([]string{"nil", "empty", "[nil]", "[valid]", "[valid,nil]", "[short-digest]", "[odd-key-addr]", "[long-digest]"}).Draw(rt, "gossipers")
					msg, desc = &protobufcompiled.VrxMsgGossip{Vertex: v, Gossipers: gl[gn]}, desc+" gossipers="+gn
				} else {
					msg = v
				}
			default:
				rpc = rapid.SampledFrom([]string{"gossip.Announce", "gossip.Discover"}).Draw(rt, "rpc")
				m := &protobufcompiled.ConnectionData{PublicAddress: addrG.Draw(rt, "address"), Url: rapid.SampledFrom([]string{"", "u:1"}).Draw(rt, "url"), CreatedAt: rapid.Uint64().Draw(rt, "createdAt"),
					Digest: bytesG.Draw(rt, "digest"), Signature: bytesG.Draw(rt, "signature")}
				msg, desc = m, fmt.Sprintf("random connection digest=%dB sig=%dB", len(m.Digest), len(m.Signature))
			}
			if !run(rpc, msg, desc, false) {
				rt.Fatalf("C15 violated: %s %s", rpc, desc)
			}
			st.sample(map[string]string{"rpc": rpc, "request": desc})
		})
	})
}

func le64u(v uint64) []byte {
	b := make([]byte, 8)
	for i := 0; i < 8; i++ {
		b[i] = byte(v >> (8 * i))
	}
	return b
}

func TestReplayC15(t *testing.T) {
	var r c15Req
	loadReplay(t, &r)
	sim.Chdir(t.TempDir())
	e, err := c15NewEnv("c15-replay")
	if err != nil {
		t.Skipf("env: %v", err)
	}
	defer e.s.close()
	var msg proto.Message
	switch {
	case strings.HasSuffix(r.RPC, "Alive"):
		msg = &emptypb.Empty{}
	case r.RPC == "notary.Propose" || r.RPC == "notary.Confirm":
		msg = &protobufcompiled.Transaction{}
	case r.RPC == "notary.Data":
		msg = &protobufcompiled.Address{}
	case r.RPC == "gossip.Announce" || r.RPC == "gossip.Discover":
		msg = &protobufcompiled.ConnectionData{}
	case r.RPC == "gossip.GossipVrx":
		msg = &protobufcompiled.VrxMsgGossip{}
	case r.RPC == "gossip.GossipTrx":
		msg = &protobufcompiled.TrxMsgGossip{}
	case strings.HasPrefix(r.RPC, "client."):
		msg = &protobufcompiled.Vertex{}
	default:
		msg = &protobufcompiled.SignedHash{}
	}
	if err := proto.Unmarshal(r.Proto, msg); err != nil {
		t.Fatalf("replay proto: %v", err)
	}
	if sig, text, _, _ := e.c15Call(r.RPC, msg, r.Desc); sig != "" {
		t.Fatalf("VIOLATION reproduced sig=%s: %s", sig, text)
	}
}
